package main

// Digest inputs (C15): the octet string each authenticator function feeds to MD5, regenerated from the
// source by a small symbolic evaluation of byte-string values.  A value is a list of pieces: the
// function's i-th argument, a run of zero octets, an argument printed with "%010d", a result of an
// opaque library call (`t, ts := now()`), literal octets.  The evaluator follows assignments, `append`,
// `bytes.Join`, conversions, `bytes.Buffer` / `hash.Hash` writes, `fmt.Sprintf` / `Fprintf` with
// "%010d", loops over a literal or variadic list (unrolled) and calls of library functions (evaluated
// with the argument values substituted).  It records the argument of every `md5.Sum` and the state of
// every `md5.New()` hash at `Sum`.  Whatever it does not understand poisons the values it could have
// changed: a poisoned or missing digest input is `unrecognised <pos>` and the C15 obligation fails.
// The names of parameters and locals do not appear in the result.

import (
	"fmt"
	"go/ast"
	"go/constant"
	"go/token"
	"go/types"
	"strings"
)

var digestFuncs = []string{modPath + "/cmpp.GenConnectAuth", modPath + "/cmpp.GenConnectRespAuthISMG", modPath + "/cmpp/cmpp20.NewConnect", modPath + "/smgp/smgp30.genAuthenticatorClient"}

type bval struct {
	ps  []string // pieces
	bad string   // non-empty: position of what was not understood
}

func (v bval) cat(o bval) bval {
	r := bval{ps: append(append([]string{}, v.ps...), o.ps...), bad: v.bad}
	if r.bad == "" {
		r.bad = o.bad
	}
	return r
}

type dstate struct {
	w       *world
	digests []bval // inputs handed to MD5, in order
	depth   int
}

type denv struct {
	info  *types.Info
	vals  map[types.Object]bval   // byte strings, buffers, hashes, arrays of octets
	nums  map[types.Object]string // numbers: "arg i" / "res f k"
	lists map[types.Object][]bval // [][]byte values (variadic parameter, literal)
	st    *dstate
}

func isByteish(t types.Type) bool {
	if t == nil {
		return false
	}
	if p, ok := t.Underlying().(*types.Pointer); ok {
		t = p.Elem()
	}
	switch u := t.Underlying().(type) {
	case *types.Basic:
		return u.Info()&types.IsString != 0
	case *types.Slice:
		b, ok := u.Elem().Underlying().(*types.Basic)
		return ok && b.Kind() == types.Uint8
	case *types.Array:
		b, ok := u.Elem().Underlying().(*types.Basic)
		return ok && b.Kind() == types.Uint8
	}
	s := t.String()
	return s == "bytes.Buffer" || s == "hash.Hash" || s == "strings.Builder"
}

func isByteList(t types.Type) bool {
	if t == nil {
		return false
	}
	sl, ok := t.Underlying().(*types.Slice)
	return ok && isByteSlice(sl.Elem())
}

func (e *denv) unknown(n ast.Node) bval { return bval{bad: e.st.w.pos(n)} }

func (e *denv) obj(x ast.Expr) types.Object {
	x = unparen(x)
	if u, ok := x.(*ast.UnaryExpr); ok && u.Op == token.AND {
		x = unparen(u.X)
	}
	if id, ok := x.(*ast.Ident); ok {
		return e.info.ObjectOf(id)
	}
	return nil
}

func (e *denv) libFunc(c *ast.CallExpr) *types.Func {
	var fn *types.Func
	switch f := unparen(c.Fun).(type) {
	case *ast.Ident:
		fn, _ = e.info.Uses[f].(*types.Func)
	case *ast.SelectorExpr:
		if e.info.Selections[f] == nil {
			fn, _ = e.info.Uses[f.Sel].(*types.Func)
		}
	}
	if fn == nil || fn.Pkg() == nil || !strings.HasPrefix(fn.Pkg().Path(), modPath) {
		return nil
	}
	if fd := e.st.w.funcs[fn]; fd == nil || fd.Body == nil {
		return nil
	}
	return fn
}

func shortFuncName(fn *types.Func) string {
	full := fn.FullName()
	return full[strings.LastIndex(full, "/")+1:]
}

// num: a number that may be printed with %010d
func (e *denv) num(x ast.Expr) (string, bool) {
	x = unparen(x)
	if id, ok := x.(*ast.Ident); ok {
		if s, ok := e.nums[e.info.ObjectOf(id)]; ok {
			return s, true
		}
	}
	if c, ok := x.(*ast.CallExpr); ok && len(c.Args) == 1 { // a widening conversion
		if tv, ok := e.info.Types[c.Fun]; ok && tv.IsType() {
			to, from := uintWidth(tv.Type), uintWidth(e.info.TypeOf(c.Args[0]))
			if (to >= from && from > 0) || isInt(tv.Type) {
				return e.num(c.Args[0])
			}
		}
	}
	return "", false
}

func isFormat010(info *types.Info, x ast.Expr) bool {
	tv := info.Types[x]
	return tv.Value != nil && tv.Value.Kind() == constant.String && constant.StringVal(tv.Value) == "%010d"
}

// list evaluates a [][]byte expression
func (e *denv) list(x ast.Expr) ([]bval, bool) {
	x = unparen(x)
	switch t := x.(type) {
	case *ast.Ident:
		l, ok := e.lists[e.info.ObjectOf(t)]
		return l, ok
	case *ast.CompositeLit:
		if !isByteList(e.info.TypeOf(t)) {
			return nil, false
		}
		var l []bval
		for _, el := range t.Elts {
			if _, isKV := el.(*ast.KeyValueExpr); isKV {
				return nil, false
			}
			l = append(l, e.bytes(el))
		}
		return l, true
	}
	return nil, false
}

// bytes evaluates a byte-string expression (with its effects on buffers and hashes)
func (e *denv) bytes(x ast.Expr) bval {
	x = unparen(x)
	if tv, ok := e.info.Types[x]; ok && tv.Value != nil && tv.Value.Kind() == constant.String {
		s := constant.StringVal(tv.Value)
		if s == "" {
			return bval{}
		}
		var bs []string
		for _, b := range []byte(s) {
			bs = append(bs, fmt.Sprint(b))
		}
		return bval{ps: []string{".lit [" + strings.Join(bs, ", ") + "]"}}
	}
	switch t := x.(type) {
	case *ast.Ident:
		if t.Name == "nil" {
			return bval{}
		}
		if v, ok := e.vals[e.info.ObjectOf(t)]; ok {
			return v
		}
	case *ast.SliceExpr:
		if t.Low == nil && t.High == nil && t.Max == nil {
			return e.bytes(t.X)
		}
	case *ast.StarExpr:
		return e.bytes(t.X)
	case *ast.UnaryExpr:
		if t.Op == token.AND {
			return e.bytes(t.X)
		}
	case *ast.BinaryExpr:
		if t.Op == token.ADD {
			return e.bytes(t.X).cat(e.bytes(t.Y))
		}
	case *ast.CompositeLit:
		typ := e.info.TypeOf(t)
		if isByteish(typ) {
			if arr, ok := typ.Underlying().(*types.Array); ok && len(t.Elts) == 0 {
				return bval{ps: []string{fmt.Sprintf(".zeros %d", arr.Len())}}
			}
			n := 0
			var lits []string
			allZero := true
			for _, el := range t.Elts {
				tv := e.info.Types[el]
				if tv.Value == nil || tv.Value.Kind() != constant.Int {
					return e.unknown(x)
				}
				if constant.Sign(tv.Value) != 0 {
					allZero = false
				}
				lits = append(lits, tv.Value.ExactString())
				n++
			}
			if n == 0 {
				return bval{}
			}
			if allZero {
				return bval{ps: []string{fmt.Sprintf(".zeros %d", n)}}
			}
			return bval{ps: []string{".lit [" + strings.Join(lits, ", ") + "]"}}
		}
	case *ast.CallExpr:
		return e.call(t)
	}
	return e.unknown(x)
}

func (e *denv) call(c *ast.CallExpr) bval {
	// conversions
	if tv, ok := e.info.Types[c.Fun]; ok && tv.IsType() && len(c.Args) == 1 {
		if isByteish(tv.Type) && isByteish(e.info.TypeOf(c.Args[0])) {
			return e.bytes(c.Args[0])
		}
		return e.unknown(c)
	}
	name := calleeFullName(e.info, c)
	if id, ok := unparen(c.Fun).(*ast.Ident); ok {
		if _, isB := e.info.Uses[id].(*types.Builtin); isB {
			switch id.Name {
			case "make":
				if len(c.Args) >= 2 && isByteish(e.info.TypeOf(c.Args[0])) {
					if tv := e.info.Types[c.Args[1]]; tv.Value != nil {
						if n, ok := constant.Int64Val(tv.Value); ok {
							if n == 0 {
								return bval{}
							}
							return bval{ps: []string{fmt.Sprintf(".zeros %d", n)}}
						}
					}
				}
				return e.unknown(c)
			case "new":
				if len(c.Args) == 1 && isByteish(e.info.TypeOf(c.Args[0])) {
					return bval{}
				}
				return e.unknown(c)
			case "append":
				if len(c.Args) == 0 {
					return e.unknown(c)
				}
				v := e.bytes(c.Args[0])
				if c.Ellipsis.IsValid() && len(c.Args) == 2 {
					return v.cat(e.bytes(c.Args[1]))
				}
				var lits []string
				for _, a := range c.Args[1:] {
					tv := e.info.Types[a]
					if tv.Value == nil || tv.Value.Kind() != constant.Int {
						return e.unknown(c)
					}
					lits = append(lits, tv.Value.ExactString())
				}
				if len(lits) > 0 {
					v = v.cat(bval{ps: []string{".lit [" + strings.Join(lits, ", ") + "]"}})
				}
				return v
			}
			return e.unknown(c)
		}
	}
	switch name {
	case "bytes.Join":
		if len(c.Args) == 2 {
			sep := e.bytes(c.Args[1])
			if l, ok := e.list(c.Args[0]); ok && len(sep.ps) == 0 && sep.bad == "" {
				var v bval
				for _, el := range l {
					v = v.cat(el)
				}
				return v
			}
		}
		return e.unknown(c)
	case "bytes.NewBuffer", "bytes.NewBufferString":
		if len(c.Args) == 1 {
			return e.bytes(c.Args[0])
		}
	case "fmt.Sprintf", "fmt.Sprint":
		if name == "fmt.Sprintf" && len(c.Args) == 2 && isFormat010(e.info, c.Args[0]) {
			if n, ok := e.num(c.Args[1]); ok {
				return bval{ps: []string{".dec10 (." + n + ")"}}
			}
		}
		return e.unknown(c)
	case "crypto/md5.Sum":
		if len(c.Args) == 1 {
			e.st.digests = append(e.st.digests, e.bytes(c.Args[0]))
			return bval{ps: []string{".digest"}}
		}
	case "crypto/md5.New":
		return bval{}
	}
	// methods of tracked buffers and hashes
	if se, ok := unparen(c.Fun).(*ast.SelectorExpr); ok && e.info.Selections[se] != nil {
		if o := e.obj(se.X); o != nil {
			if cur, tracked := e.vals[o]; tracked {
				recvT := e.info.TypeOf(se.X).String()
				isHash := strings.Contains(recvT, "hash.Hash")
				isBuf := strings.Contains(recvT, "bytes.Buffer") || strings.Contains(recvT, "strings.Builder")
				switch {
				case (isHash || isBuf) && (se.Sel.Name == "Write" || se.Sel.Name == "WriteString") && len(c.Args) == 1:
					e.vals[o] = cur.cat(e.bytes(c.Args[0]))
					return bval{}
				case isBuf && se.Sel.Name == "WriteByte" && len(c.Args) == 1:
					tv := e.info.Types[c.Args[0]]
					if tv.Value != nil && tv.Value.Kind() == constant.Int {
						if constant.Sign(tv.Value) == 0 {
							e.vals[o] = cur.cat(bval{ps: []string{".zeros 1"}})
						} else {
							e.vals[o] = cur.cat(bval{ps: []string{".lit [" + tv.Value.ExactString() + "]"}})
						}
						return bval{}
					}
				case isBuf && (se.Sel.Name == "Bytes" || se.Sel.Name == "String") && len(c.Args) == 0:
					return cur
				case isBuf && se.Sel.Name == "Len" && len(c.Args) == 0:
					return bval{}
				case isHash && se.Sel.Name == "Sum" && len(c.Args) == 1:
					if pre := e.bytes(c.Args[0]); len(pre.ps) == 0 && pre.bad == "" {
						e.st.digests = append(e.st.digests, cur)
						return bval{ps: []string{".digest"}}
					}
				}
				e.vals[o] = e.unknown(c)
				return e.unknown(c)
			}
		}
	}
	// fmt.Fprintf(buf, "%010d", x) / io.WriteString(h, s)
	if (name == "fmt.Fprintf" && len(c.Args) == 3) || (name == "io.WriteString" && len(c.Args) == 2) {
		if o := e.obj(c.Args[0]); o != nil {
			if cur, tracked := e.vals[o]; tracked {
				if name == "io.WriteString" {
					e.vals[o] = cur.cat(e.bytes(c.Args[1]))
					return bval{}
				}
				if isFormat010(e.info, c.Args[1]) {
					if n, ok := e.num(c.Args[2]); ok {
						e.vals[o] = cur.cat(bval{ps: []string{".dec10 (." + n + ")"}})
						return bval{}
					}
				}
				e.vals[o] = e.unknown(c)
				return e.unknown(c)
			}
		}
	}
	// a library function: evaluated with the argument values substituted
	if fn := e.libFunc(c); fn != nil {
		if v, ok := e.inline(fn, c); ok {
			return v
		}
	}
	// anything else: every tracked value handed over may have been changed
	e.poisonArgs(c)
	return e.unknown(c)
}

func (e *denv) poisonArgs(c *ast.CallExpr) {
	for _, a := range c.Args {
		if o := e.obj(a); o != nil {
			if _, tracked := e.vals[o]; tracked {
				switch e.info.TypeOf(a).Underlying().(type) {
				case *types.Basic: // strings are immutable
				default:
					e.vals[o] = e.unknown(c)
				}
			}
		}
	}
}

// opaque: a library call without byte-string arguments whose results are only named (`t, ts := now()`)
func (e *denv) opaque(c *ast.CallExpr) (*types.Func, bool) {
	fn := e.libFunc(c)
	if fn == nil || len(c.Args) != 0 {
		return nil, false
	}
	if e.st.w.mentionsMD5(fn) {
		return nil, false
	}
	return fn, true
}

func (w *world) mentionsMD5(fn *types.Func) bool {
	fd := w.funcs[fn]
	return fd != nil && mentions(w.infoOf[fd], fd.Body, "crypto/md5")
}

func (e *denv) inline(fn *types.Func, c *ast.CallExpr) (bval, bool) {
	if e.st.depth > 4 {
		return bval{}, false
	}
	w := e.st.w
	fd := w.funcs[fn]
	sig := fn.Type().(*types.Signature)
	if fd.Recv != nil {
		return bval{}, false
	}
	ne := &denv{info: w.infoOf[fd], vals: map[types.Object]bval{}, nums: map[types.Object]string{}, lists: map[types.Object][]bval{}, st: e.st}
	np := sig.Params().Len()
	for i := 0; i < np; i++ {
		p := sig.Params().At(i)
		if sig.Variadic() && i == np-1 {
			if c.Ellipsis.IsValid() {
				l, ok := e.list(c.Args[len(c.Args)-1])
				if !ok {
					return bval{}, false
				}
				ne.lists[p] = l
			} else if isByteList(p.Type()) {
				var l []bval
				for _, a := range c.Args[i:] {
					l = append(l, e.bytes(a))
				}
				ne.lists[p] = l
			} else {
				return bval{}, false
			}
			continue
		}
		if i >= len(c.Args) {
			return bval{}, false
		}
		switch {
		case isByteList(p.Type()):
			l, ok := e.list(c.Args[i])
			if !ok {
				return bval{}, false
			}
			ne.lists[p] = l
		case isByteish(p.Type()):
			ne.vals[p] = e.bytes(c.Args[i])
		default:
			if n, ok := e.num(c.Args[i]); ok {
				ne.nums[p] = n
			}
		}
	}
	e.st.depth++
	ret, ok := ne.block(fd.Body.List)
	e.st.depth--
	if !ok {
		return bval{}, false
	}
	if ret == nil {
		return bval{}, true
	}
	return *ret, true
}

// touches: does the node assign to, or call anything with, a tracked value?
func (e *denv) touches(n ast.Node) bool {
	hit := false
	ast.Inspect(n, func(m ast.Node) bool {
		if id, ok := m.(*ast.Ident); ok {
			if o := e.info.Uses[id]; o != nil {
				if _, t := e.vals[o]; t {
					hit = true
				}
				if _, t := e.lists[o]; t {
					hit = true
				}
			}
		}
		if c, ok := m.(*ast.CallExpr); ok && strings.HasPrefix(calleeFullName(e.info, c), "crypto/md5") {
			hit = true
		}
		return !hit
	})
	return hit
}

func (e *denv) poisonAll(n ast.Node) {
	for o := range e.vals {
		e.vals[o] = e.unknown(n)
	}
	e.st.digests = append(e.st.digests, e.unknown(n))
}

// effects evaluates the calls inside an expression whose value is not a byte string
func (e *denv) effects(x ast.Expr) {
	if x == nil {
		return
	}
	ast.Inspect(x, func(m ast.Node) bool {
		switch t := m.(type) {
		case *ast.FuncLit:
			if e.touches(t) {
				e.poisonAll(t)
			}
			return false
		case *ast.CallExpr:
			if tv, ok := e.info.Types[t.Fun]; ok && tv.IsType() {
				return true
			}
			if id, ok := unparen(t.Fun).(*ast.Ident); ok {
				if _, isB := e.info.Uses[id].(*types.Builtin); isB && (id.Name == "len" || id.Name == "cap") {
					return false
				}
			}
			if e.touches(t) || e.libFuncMentionsMD5(t) {
				e.call(t)
				return false
			}
		}
		return true
	})
}

func (e *denv) libFuncMentionsMD5(c *ast.CallExpr) bool {
	fn := e.libFunc(c)
	return fn != nil && e.st.w.mentionsMD5(fn)
}

func (e *denv) assign(lhs ast.Expr, v bval, n ast.Node) {
	lhs = unparen(lhs)
	if id, ok := lhs.(*ast.Ident); ok {
		if id.Name == "_" {
			return
		}
		if o := e.info.ObjectOf(id); o != nil {
			e.vals[o] = v
			return
		}
	}
	// an element, a field, a dereference: whatever it reaches is no longer known
	ast.Inspect(lhs, func(m ast.Node) bool {
		if id, ok := m.(*ast.Ident); ok {
			if o := e.info.Uses[id]; o != nil {
				if _, t := e.vals[o]; t {
					e.vals[o] = e.unknown(n)
				}
			}
		}
		return true
	})
}

// block executes statements; a non-nil result is the value returned
func (e *denv) block(stmts []ast.Stmt) (*bval, bool) {
	for _, st := range stmts {
		switch s := st.(type) {
		case *ast.DeclStmt:
			gd, ok := s.Decl.(*ast.GenDecl)
			if !ok || gd.Tok != token.VAR {
				continue
			}
			for _, sp := range gd.Specs {
				vs := sp.(*ast.ValueSpec)
				for i, nm := range vs.Names {
					o := e.info.ObjectOf(nm)
					if o == nil || !isByteish(o.Type()) {
						if i < len(vs.Values) {
							e.effects(vs.Values[i])
						}
						continue
					}
					switch {
					case i < len(vs.Values):
						e.vals[o] = e.bytes(vs.Values[i])
					default:
						if arr, ok := o.Type().Underlying().(*types.Array); ok {
							e.vals[o] = bval{ps: []string{fmt.Sprintf(".zeros %d", arr.Len())}}
						} else {
							e.vals[o] = bval{}
						}
					}
				}
			}
		case *ast.AssignStmt:
			if s.Tok != token.ASSIGN && s.Tok != token.DEFINE {
				// x += y on strings; on numbers nothing to follow
				if s.Tok == token.ADD_ASSIGN && len(s.Lhs) == 1 && isByteish(e.info.TypeOf(s.Lhs[0])) {
					e.assign(s.Lhs[0], e.bytes(s.Lhs[0]).cat(e.bytes(s.Rhs[0])), s)
					continue
				}
				for _, l := range s.Lhs {
					if o := e.obj(l); o != nil {
						delete(e.nums, o)
					}
				}
				e.effects(s.Rhs[0])
				continue
			}
			if len(s.Lhs) == len(s.Rhs) {
				var vs []bval
				for i := range s.Rhs {
					switch {
					case isByteList(e.info.TypeOf(s.Lhs[i])):
						l, ok := e.list(s.Rhs[i])
						if o := e.obj(s.Lhs[i]); o != nil && ok {
							e.lists[o] = l
						} else {
							e.poisonAll(s)
						}
						vs = append(vs, bval{})
					case isByteish(e.info.TypeOf(s.Lhs[i])):
						vs = append(vs, e.bytes(s.Rhs[i]))
					default:
						if o := e.obj(s.Lhs[i]); o != nil {
							if n, ok := e.num(s.Rhs[i]); ok {
								e.nums[o] = n
							} else {
								delete(e.nums, o)
							}
						}
						e.effects(s.Rhs[i])
						vs = append(vs, bval{})
					}
				}
				for i := range s.Lhs {
					if isByteish(e.info.TypeOf(s.Lhs[i])) && !isByteList(e.info.TypeOf(s.Lhs[i])) {
						e.assign(s.Lhs[i], vs[i], s)
					}
				}
				continue
			}
			// a, b := f()
			if len(s.Rhs) == 1 {
				if c, ok := unparen(s.Rhs[0]).(*ast.CallExpr); ok {
					if fn, ok := e.opaque(c); ok {
						for k, l := range s.Lhs {
							o := e.obj(l)
							if o == nil {
								continue
							}
							if isByteish(o.Type()) {
								e.vals[o] = bval{ps: []string{fmt.Sprintf(".res %s %d", q(shortFuncName(fn)), k)}}
							} else {
								e.nums[o] = fmt.Sprintf("res %s %d", q(shortFuncName(fn)), k)
							}
						}
						continue
					}
					v := e.call(c) // e.g. `_, err := h.Write(x)`, `n, err := buf.Write(x)`
					for k, l := range s.Lhs {
						if isByteish(e.info.TypeOf(l)) {
							if k == 0 {
								e.assign(l, v, s)
							} else {
								e.assign(l, e.unknown(s), s)
							}
						}
					}
					continue
				}
			}
			e.poisonAll(s)
		case *ast.ExprStmt:
			if c, ok := unparen(s.X).(*ast.CallExpr); ok {
				if e.touches(c) || e.libFuncMentionsMD5(c) {
					e.call(c)
				}
				continue
			}
			e.effects(s.X)
		case *ast.RangeStmt:
			if l, ok := e.list(s.X); ok && s.Tok == token.DEFINE {
				var vo types.Object
				if s.Value != nil {
					vo = e.obj(s.Value)
				}
				for _, el := range l {
					if vo != nil {
						e.vals[vo] = el
					}
					if ret, ok := e.block(s.Body.List); !ok || ret != nil {
						return nil, false
					}
				}
				if vo != nil {
					delete(e.vals, vo)
				}
				continue
			}
			if e.touches(s) {
				e.poisonAll(s)
			}
		case *ast.IfStmt:
			if s.Init != nil {
				if ret, ok := e.block([]ast.Stmt{s.Init}); !ok || ret != nil {
					return nil, false
				}
			}
			e.effects(s.Cond)
			// an error exit that builds nothing: `if err != nil { return nil, err }`
			if s.Else == nil && !e.touches(s.Body) {
				continue
			}
			e.poisonAll(s)
		case *ast.ReturnStmt:
			if len(s.Results) >= 1 && isByteish(e.info.TypeOf(s.Results[0])) {
				v := e.bytes(s.Results[0])
				for _, r := range s.Results[1:] {
					e.effects(r)
				}
				return &v, true
			}
			for _, r := range s.Results {
				e.effects(r)
			}
			v := bval{}
			return &v, true
		case *ast.IncDecStmt, *ast.EmptyStmt:
		default:
			if e.touches(st) {
				e.poisonAll(st)
			}
		}
	}
	return nil, true
}

func (w *world) digestOf(fn *types.Func) []string {
	fd := w.funcs[fn]
	info := w.infoOf[fd]
	st := &dstate{w: w}
	e := &denv{info: info, vals: map[types.Object]bval{}, nums: map[types.Object]string{}, lists: map[types.Object][]bval{}, st: st}
	sig := fn.Type().(*types.Signature)
	for i := 0; i < sig.Params().Len(); i++ {
		p := sig.Params().At(i)
		switch {
		case isByteish(p.Type()):
			e.vals[p] = bval{ps: []string{fmt.Sprintf(".arg %d", i)}}
		case uintWidth(p.Type()) > 0 || isInt(p.Type()):
			e.nums[p] = fmt.Sprintf("arg %d", i)
		}
	}
	if _, ok := e.block(fd.Body.List); !ok {
		return []string{".unrecognised " + q(w.pos(fd))}
	}
	if len(st.digests) != 1 {
		return []string{".unrecognised " + q(fmt.Sprintf("%s: %d digests", w.pos(fd), len(st.digests)))}
	}
	d := st.digests[0]
	if d.bad != "" {
		return []string{".unrecognised " + q(d.bad)}
	}
	return d.ps
}

func isObjIdent(info *types.Info, x ast.Expr, o types.Object) bool {
	id, ok := unparen(x).(*ast.Ident)
	return ok && info.Uses[id] == o
}

func mentions(info *types.Info, n ast.Node, pkgPath string) bool {
	hit := false
	ast.Inspect(n, func(m ast.Node) bool {
		if id, ok := m.(*ast.Ident); ok {
			if pn, ok := info.Uses[id].(*types.PkgName); ok && pn.Imported().Path() == pkgPath {
				hit = true
			}
		}
		return !hit
	})
	return hit
}

func (w *world) genDigests() string {
	var sb strings.Builder
	sb.WriteString("inductive Num where\n  | arg (i : Nat)\n  | res (fn : String) (k : Nat)\n  deriving Repr, DecidableEq\n\n")
	sb.WriteString("/-- a piece of what is handed to MD5: the function's i-th argument, zero octets, a number printed with \"%010d\",\n    the k-th result of a call without arguments, literal octets, the digest of an earlier MD5 call -/\n")
	sb.WriteString("inductive Piece where\n  | arg (i : Nat)\n  | zeros (n : Nat)\n  | dec10 (x : Num)\n  | res (fn : String) (k : Nat)\n  | lit (bs : List Nat)\n  | digest\n  | unrecognised (pos : String)\n  deriving Repr, DecidableEq\n\n")
	var rows []string
	for _, full := range digestFuncs {
		var fn *types.Func
		for f := range w.funcs {
			if fullName(f) == full {
				fn = f
			}
		}
		short := full[strings.LastIndex(full, "/")+1:]
		ps := []string{".unrecognised " + q("not found")}
		if fn != nil && w.funcs[fn].Body != nil {
			ps = w.digestOf(fn)
		}
		rows = append(rows, fmt.Sprintf("(%s, [%s])", q(short), strings.Join(ps, ", ")))
	}
	fmt.Fprintf(&sb, "/-- what each authenticator function hands to MD5, piece by piece -/\ndef digestInputs : List (String × List Piece) := %s\n\n", leanList(rows, "  "))
	// cmpp.TimeStamp2Str: `return fmt.Sprintf("%010d", t)`
	tsFmt := "?"
	for f, fd := range w.funcs {
		if fullName(f) == modPath+"/cmpp.TimeStamp2Str" && fd.Body != nil && len(fd.Body.List) == 1 {
			if r, ok := fd.Body.List[0].(*ast.ReturnStmt); ok && len(r.Results) == 1 {
				if c, ok := r.Results[0].(*ast.CallExpr); ok && calleeFullName(w.infoOf[fd], c) == "fmt.Sprintf" && len(c.Args) == 2 {
					if tv := w.infoOf[fd].Types[c.Args[0]]; tv.Value != nil {
						tsFmt = constant.StringVal(tv.Value)
					}
				}
			}
		}
	}
	fmt.Fprintf(&sb, "/-- format of `cmpp.TimeStamp2Str` -/\ndef timestampFormat : String := %s\n\n", q(tsFmt))
	return sb.String()
}
