package main

// Gen/Lifecycle.lean: facts about the use of pooled objects, read off the syntax of every function
// of the module (C12 / C13):
//   * poolUses  — every acquisition `x := packet.NewPacketWriter(..)` / `NewPacketReader(..)` /
//                 `NewPDUStringer()`: does x escape (returned, aliased, stored, captured by a closure
//                 or a go statement), how many `defer x.Release()` and how many direct x.Release();
//   * poolPuts  — every call that hands an object back to a pool, with its enclosing function;
//   * copyOuts  — do Writer.Bytes / Writer.BytesWithLength return a slice made in the call and
//                 filled by copy (never the pooled buffer itself);
//   * optionValueProv — where the value stored by ParseOptions / ReadOptions / ReadTLVs / ReadTLVs1 lives.
// The Lean side states what these facts must be (Props/C13.lean) and closes it with `decide`.

import (
	"fmt"
	"go/ast"
	"go/types"
	"sort"
	"strings"
)

var acquireKinds = map[string]string{
	modPath + "/packet.NewPacketWriter": "writer",
	modPath + "/packet.NewPacketReader": "reader",
	modPath + "/packet.NewPDUStringer":  "stringer",
}

func funcDisplayName(fn *types.Func) string {
	name := fn.Name()
	pkg := ""
	if fn.Pkg() != nil {
		pkg = fn.Pkg().Name()
	}
	if sig, ok := fn.Type().(*types.Signature); ok && sig.Recv() != nil {
		t := sig.Recv().Type()
		ptr := ""
		if p, ok := t.(*types.Pointer); ok {
			t = p.Elem()
			ptr = "*"
		}
		if n, ok := t.(*types.Named); ok {
			return fmt.Sprintf("%s.(%s%s).%s", pkg, ptr, n.Obj().Name(), name)
		}
	}
	return pkg + "." + name
}

func calleeFullName(info *types.Info, c *ast.CallExpr) string {
	var id *ast.Ident
	switch f := c.Fun.(type) {
	case *ast.Ident:
		id = f
	case *ast.SelectorExpr:
		id = f.Sel
	}
	if id == nil {
		return ""
	}
	if fn, ok := info.Uses[id].(*types.Func); ok {
		return fullName(fn)
	}
	return ""
}

func usesObj(info *types.Info, n ast.Node, obj types.Object) bool {
	found := false
	ast.Inspect(n, func(x ast.Node) bool {
		if id, ok := x.(*ast.Ident); ok && info.Uses[id] == obj {
			found = true
		}
		return !found
	})
	return found
}

func isReleaseOf(info *types.Info, c *ast.CallExpr, obj types.Object) bool {
	sel, ok := c.Fun.(*ast.SelectorExpr)
	if !ok || sel.Sel.Name != "Release" {
		return false
	}
	id, ok := sel.X.(*ast.Ident)
	return ok && info.Uses[id] == obj
}

// releasesOfParam counts the `Release()` calls a library function makes on its ai-th parameter
func (w *world) releasesOfParam(info *types.Info, c *ast.CallExpr, ai int) int {
	var fn *types.Func
	switch f := c.Fun.(type) {
	case *ast.Ident:
		fn, _ = info.Uses[f].(*types.Func)
	case *ast.SelectorExpr:
		if info.Selections[f] == nil {
			fn, _ = info.Uses[f.Sel].(*types.Func)
		}
	}
	if fn == nil {
		return 0
	}
	fd := w.funcs[fn]
	if fd == nil || fd.Body == nil || fd.Type.Params == nil {
		return 0
	}
	finfo := w.infoOf[fd]
	idx := 0
	var param types.Object
	for _, pf := range fd.Type.Params.List {
		for _, nm := range pf.Names {
			if idx == ai {
				param = finfo.ObjectOf(nm)
			}
			idx++
		}
	}
	if param == nil {
		return 0
	}
	n := 0
	ast.Inspect(fd.Body, func(m ast.Node) bool {
		if cc, ok := m.(*ast.CallExpr); ok && isReleaseOf(finfo, cc, param) {
			n++
		}
		return true
	})
	return n
}

func (w *world) genLifecycle() string {
	type use struct {
		fn, pos, kind string
		escap         bool
		deferred      int // `defer x.Release()` statements
		direct        int // x.Release() called directly (a use after it would be a use after release)
	}
	var uses []use
	var puts [][2]string
	var copyOuts []string

	var fns []*types.Func
	for fn := range w.funcs {
		if fn.Pkg() != nil && strings.HasPrefix(fn.Pkg().Path(), modPath) {
			fns = append(fns, fn)
		}
	}
	sort.Slice(fns, func(i, j int) bool {
		a, b := fullName(fns[i]), fullName(fns[j])
		if a != b {
			return a < b
		}
		return fns[i].Pos() < fns[j].Pos()
	})
	for _, fn := range fns {
		fd := w.funcs[fn]
		if fd.Body == nil || strings.HasSuffix(w.fset.Position(fd.Pos()).Filename, "_test.go") {
			continue
		}
		info := w.infoOf[fd]
		name := funcDisplayName(fn)
		// pool hand-backs
		ast.Inspect(fd.Body, func(n ast.Node) bool {
			c, ok := n.(*ast.CallExpr)
			if !ok {
				return true
			}
			cn := calleeFullName(info, c)
			if cn == "github.com/valyala/bytebufferpool.Put" || cn == "(*github.com/valyala/bytebufferpool.Pool).Put" || cn == "(*sync.Pool).Put" {
				puts = append(puts, [2]string{name, cn})
			}
			return true
		})
		// acquisitions, block by block
		var walkBlock func(list []ast.Stmt)
		visitStmt := func(s ast.Stmt) {
			ast.Inspect(s, func(n ast.Node) bool {
				if b, ok := n.(*ast.BlockStmt); ok {
					walkBlock(b.List)
					return false
				}
				if cc, ok := n.(*ast.CaseClause); ok {
					walkBlock(cc.Body)
					return false
				}
				return true
			})
		}
		walkBlock = func(list []ast.Stmt) {
			for i, s := range list {
				if as, ok := s.(*ast.AssignStmt); ok && len(as.Lhs) == 1 && len(as.Rhs) == 1 {
					if c, ok := as.Rhs[0].(*ast.CallExpr); ok {
						if kind, ok := acquireKinds[calleeFullName(info, c)]; ok {
							u := use{fn: name, pos: w.pos(s), kind: kind}
							id, _ := as.Lhs[0].(*ast.Ident)
							var obj types.Object
							if id != nil {
								obj = info.ObjectOf(id)
							}
							if obj == nil {
								u.escap = true // stored somewhere else than a local
							} else {
								_ = i
								retCalls := map[*ast.CallExpr]bool{}
								ast.Inspect(fd.Body, func(n ast.Node) bool {
									if x, ok := n.(*ast.ReturnStmt); ok {
										for _, r := range x.Results {
											if c, ok := r.(*ast.CallExpr); ok {
												retCalls[c] = true
											}
										}
									}
									return true
								})
								ast.Inspect(fd.Body, func(n ast.Node) bool {
									switch x := n.(type) {
									case *ast.ReturnStmt:
										for _, r := range x.Results {
											if rid, ok := r.(*ast.Ident); ok && info.Uses[rid] == obj {
												u.escap = true
											}
										}
									case *ast.AssignStmt:
										for _, r := range x.Rhs {
											if rid, ok := r.(*ast.Ident); ok && info.Uses[rid] == obj {
												u.escap = true
											}
										}
									case *ast.FuncLit:
										if usesObj(info, x.Body, obj) {
											u.escap = true
										}
									case *ast.GoStmt:
										if usesObj(info, x.Call, obj) {
											u.escap = true
										}
									case *ast.CompositeLit:
										if usesObj(info, x, obj) {
											u.escap = true
										}
									case *ast.DeferStmt:
										if isReleaseOf(info, x.Call, obj) {
											u.deferred++
											u.direct-- // counted again below as a call expression
										}
									case *ast.CallExpr:
										if isReleaseOf(info, x, obj) {
											u.direct++
										}
										// the pooled object handed to a library function that releases it: as the last thing the
										// acquiring function does (`return finish(b)`) it counts like the deferred release, anywhere
										// else like a direct one
										for ai, a := range x.Args {
											aid, ok := a.(*ast.Ident)
											if !ok || info.Uses[aid] != obj {
												continue
											}
											n := w.releasesOfParam(info, x, ai)
											if retCalls[x] {
												u.deferred += n
											} else {
												u.direct += n
											}
										}
									}
									return true
								})
							}
							uses = append(uses, u)
						}
					}
				}
				visitStmt(s)
			}
		}
		walkBlock(fd.Body.List)
		// copy-out of the writer
		if name == "packet.(*Writer).Bytes" || name == "packet.(*Writer).BytesWithLength" {
			// the result is storage made in the call (directly or by a helper that makes and fills it), never the pooled buffer
			ok := w.retProvOf(fn, 0) == "fresh"
			copyOuts = append(copyOuts, fmt.Sprintf("(%s, %v)", q(name), ok))
		}
	}
	// provenance of the value stored in an optional-parameter container by the four parsers
	var provs []string
	var provOfFn func(fn *types.Func, depth int) string
	provOfFn = func(fn *types.Func, depth int) string {
		prov := "unknown"
		fd := w.funcs[fn]
		info := w.infoOf[fd]
		params := map[types.Object]bool{}
		if fd.Type.Params != nil {
			for _, f := range fd.Type.Params.List {
				for _, n := range f.Names {
					params[info.ObjectOf(n)] = true
				}
			}
		}
		// how every local []byte variable is defined (all definitions must agree)
		defs := map[types.Object][]string{}
		classify := func(x ast.Expr) string {
			switch e := x.(type) {
			case *ast.CallExpr:
				if f, ok := e.Fun.(*ast.Ident); ok && f.Name == "make" {
					return "fresh"
				}
				if f, ok := e.Fun.(*ast.Ident); ok && f.Name == "append" && len(e.Args) >= 1 {
					if c, ok := e.Args[0].(*ast.CallExpr); ok { // append([]byte(nil), …)
						if _, ok := c.Fun.(*ast.ArrayType); ok {
							return "fresh"
						}
					}
				}
			case *ast.SliceExpr:
				if id, ok := e.X.(*ast.Ident); ok && params[info.Uses[id]] {
					return "alias"
				}
			}
			return "unknown"
		}
		ast.Inspect(fd.Body, func(n ast.Node) bool {
			if as, ok := n.(*ast.AssignStmt); ok && len(as.Lhs) == len(as.Rhs) {
				for i, l := range as.Lhs {
					if id, ok := l.(*ast.Ident); ok {
						if obj := info.ObjectOf(id); obj != nil {
							defs[obj] = append(defs[obj], classify(as.Rhs[i]))
						}
					}
				}
			}
			return true
		})
		// the composite literals stored into the container: field `value`
		var found []string
		ast.Inspect(fd.Body, func(n ast.Node) bool {
			cl, ok := n.(*ast.CompositeLit)
			if !ok {
				return true
			}
			for _, el := range cl.Elts {
				kv, ok := el.(*ast.KeyValueExpr)
				if !ok {
					continue
				}
				if k, ok := kv.Key.(*ast.Ident); ok && k.Name == "value" {
					if id, ok := kv.Value.(*ast.Ident); ok {
						ds := defs[info.Uses[id]]
						r := "unknown"
						if len(ds) > 0 {
							r = ds[0]
							for _, d := range ds {
								if d != r {
									r = "unknown"
								}
							}
						}
						found = append(found, r)
					} else {
						found = append(found, classify(kv.Value))
					}
				}
			}
			return true
		})
		if len(found) > 0 {
			prov = found[0]
			for _, f := range found {
				if f != prov {
					prov = "unknown"
				}
			}
		}

		if len(found) == 0 && depth < 3 && fd.Type.Results != nil && len(fd.Type.Results.List) >= 1 {
			// a wrapper: the container is what one other library function returned (`tlvs, _ := ReadTLVs(r); return tlvs`)
			var callees []*types.Func
			rt := info.TypeOf(fd.Type.Results.List[0].Type)
			ast.Inspect(fd.Body, func(n ast.Node) bool {
				c, ok := n.(*ast.CallExpr)
				if !ok {
					return true
				}
				var g *types.Func
				switch f := c.Fun.(type) {
				case *ast.Ident:
					g, _ = info.Uses[f].(*types.Func)
				case *ast.SelectorExpr:
					if info.Selections[f] == nil {
						g, _ = info.Uses[f.Sel].(*types.Func)
					}
				}
				if g == nil || w.funcs[g] == nil || g == fn {
					return true
				}
				if sig, ok := g.Type().(*types.Signature); ok && sig.Results().Len() >= 1 && rt != nil && types.Identical(sig.Results().At(0).Type(), rt) {
					callees = append(callees, g)
				}
				return true
			})
			if len(callees) == 1 {
				return provOfFn(callees[0], depth+1)
			}
		}
		return prov
	}
	for _, target := range []string{"smgp.ParseOptions", "smgp.ReadOptions", "smpp.ReadTLVs", "smpp.ReadTLVs1"} {
		prov := "unknown"
		for _, fn := range fns {
			if funcDisplayName(fn) == target {
				prov = provOfFn(fn, 0)
			}
		}
		provs = append(provs, fmt.Sprintf("(%s, %s)", q(target), q(prov)))
	}
	var sb strings.Builder
	sb.WriteString("-- GENERATED by /verif/go/extract from the Go source of the repository's working tree. Do not edit.\n")
	sb.WriteString("namespace SmsVerif.Gen\n\n")
	sb.WriteString("structure PoolUse where\n  fn : String\n  pos : String\n  kind : String\n  escapes : Bool\n  deferredReleases : Nat\n  directReleases : Nat\n  deriving Repr, DecidableEq\n\n")
	var us []string
	for _, u := range uses {
		us = append(us, fmt.Sprintf("{ fn := %s, pos := %s, kind := %s, escapes := %v, deferredReleases := %d, directReleases := %d }", q(u.fn), q(u.pos), q(u.kind), u.escap, u.deferred, max(u.direct, 0)))
	}
	fmt.Fprintf(&sb, "def poolUses : List PoolUse := %s\n\n", leanList(us, "  "))
	var ps []string
	for _, p := range puts {
		ps = append(ps, fmt.Sprintf("(%s, %s)", q(p[0]), q(p[1])))
	}
	fmt.Fprintf(&sb, "def poolPuts : List (String × String) := %s\n\n", leanList(ps, "  "))
	fmt.Fprintf(&sb, "def copyOuts : List (String × Bool) := %s\n\n", leanList(copyOuts, "  "))
	fmt.Fprintf(&sb, "/-- storage of the value a parser puts into an optional-parameter container: fresh (make / append to nil), alias (a slice of a parameter), unknown -/\ndef optionValueProv : List (String × String) := %s\n\n", leanList(provs, "  "))
	sb.WriteString(w.genReaderProv())
	sb.WriteString(w.genGlobals())
	sb.WriteString("end SmsVerif.Gen\n")
	return sb.String()
}
