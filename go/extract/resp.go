package main

// GenEmptyResponse by evaluation (C10).  When the response is not built in one of the few shapes
// `respSpecShapes` matches, the method is evaluated symbolically: values are constants, fields of the
// request, the request's `GetSequenceID()`, a table lookup on a request field (a switch or an if-chain
// that returns constants), structs and arrays of these.  Statements: declarations, (parallel)
// assignments to variables and to fields / array elements of local structs, loops over fixed-size
// arrays (unrolled), switches and if-chains that pick a constant, `return`; calls of library functions
// and of methods of the request are evaluated with the argument values substituted.  Whatever is not
// understood becomes an opaque value; an opaque command id or an unreadable body gives `.unknown`.

import (
	"fmt"
	"go/ast"
	"go/constant"
	"go/token"
	"go/types"
	"sort"
	"strconv"
	"strings"
)

type rval struct {
	kind   string // const | req (a field of the request, whole or part) | reqseq | byreq | struct | array | opaque
	n      uint64
	path   string // req / byreq: field path of the request
	rows   []string
	def    uint64
	fields map[string]*rval // struct (direct field names)
	elems  []*rval          // array
	typ    types.Type
}

func opaque() *rval { return &rval{kind: "opaque"} }

type renv struct {
	w     *world
	info  *types.Info
	vars  map[types.Object]*rval
	depth int
	// rows collected from `if field == K { return V }` statements, waiting for the final `return D`
	pendingRows []string
	pendingPath string
}

func zeroOf(t types.Type) *rval {
	switch u := t.Underlying().(type) {
	case *types.Struct:
		return &rval{kind: "struct", fields: map[string]*rval{}, typ: t}
	case *types.Array:
		v := &rval{kind: "array", typ: t}
		for i := int64(0); i < u.Len(); i++ {
			v.elems = append(v.elems, zeroOf(u.Elem()))
		}
		return v
	case *types.Pointer:
		return opaque()
	}
	return &rval{kind: "const", n: 0}
}

// field selects a field of a struct value (zero if never set), or of a part of the request
func (v *rval) field(name string, t types.Type) *rval {
	switch v.kind {
	case "struct":
		if f, ok := v.fields[name]; ok {
			return f
		}
		z := zeroOf(t)
		v.fields[name] = z
		return z
	case "req":
		p := name
		if v.path != "" {
			p = v.path + "." + name
		}
		return &rval{kind: "req", path: p, typ: t}
	}
	return opaque()
}

func (v *rval) index(i int64, t types.Type) *rval {
	switch v.kind {
	case "array":
		if i >= 0 && int(i) < len(v.elems) {
			return v.elems[i]
		}
	case "req":
		return &rval{kind: "req", path: fmt.Sprintf("%s.%d", v.path, i), typ: t}
	}
	return opaque()
}

// selPath walks a selector expression (with promoted fields made explicit) down from the value of its root
func (e *renv) selector(x *ast.SelectorExpr) *rval {
	sel := e.info.Selections[x]
	if sel == nil || sel.Kind() != types.FieldVal {
		return opaque()
	}
	v := e.eval(x.X)
	t := sel.Recv()
	for _, idx := range sel.Index() {
		if ptr, ok := t.Underlying().(*types.Pointer); ok {
			t = ptr.Elem()
		}
		st, ok := t.Underlying().(*types.Struct)
		if !ok {
			return opaque()
		}
		f := st.Field(idx)
		v = v.field(f.Name(), f.Type())
		t = f.Type()
	}
	return v
}

func (e *renv) eval(x ast.Expr) *rval {
	x = unparen(x)
	if tv, ok := e.info.Types[x]; ok && tv.Value != nil && tv.Value.Kind() == constant.Int {
		if n, exact := constant.Uint64Val(tv.Value); exact {
			return &rval{kind: "const", n: n}
		}
		return opaque()
	}
	switch t := x.(type) {
	case *ast.Ident:
		if v, ok := e.vars[e.info.ObjectOf(t)]; ok {
			return v
		}
	case *ast.StarExpr:
		return e.eval(t.X)
	case *ast.UnaryExpr:
		if t.Op == token.AND {
			return e.eval(t.X)
		}
	case *ast.SelectorExpr:
		return e.selector(t)
	case *ast.IndexExpr:
		if tv := e.info.Types[t.Index]; tv.Value != nil {
			if i, ok := constant.Int64Val(tv.Value); ok {
				return e.eval(t.X).index(i, e.info.TypeOf(x))
			}
		}
		if iv := e.eval(t.Index); iv.kind == "const" {
			return e.eval(t.X).index(int64(iv.n), e.info.TypeOf(x))
		}
	case *ast.CompositeLit:
		typ := e.info.TypeOf(t)
		switch u := typ.Underlying().(type) {
		case *types.Struct:
			v := &rval{kind: "struct", fields: map[string]*rval{}, typ: typ}
			for i, el := range t.Elts {
				if kv, ok := el.(*ast.KeyValueExpr); ok {
					v.fields[kv.Key.(*ast.Ident).Name] = e.eval(kv.Value)
				} else if i < u.NumFields() {
					v.fields[u.Field(i).Name()] = e.eval(el)
				}
			}
			return v
		case *types.Array:
			v := zeroOf(typ)
			for i, el := range t.Elts {
				if _, isKV := el.(*ast.KeyValueExpr); isKV || i >= len(v.elems) {
					return opaque()
				}
				v.elems[i] = e.eval(el)
			}
			return v
		}
	case *ast.CallExpr:
		return e.call(t)
	}
	return opaque()
}

func (e *renv) call(c *ast.CallExpr) *rval {
	// conversion
	if tv, ok := e.info.Types[c.Fun]; ok && tv.IsType() && len(c.Args) == 1 {
		return e.eval(c.Args[0])
	}
	if id, ok := unparen(c.Fun).(*ast.Ident); ok {
		if _, isB := e.info.Uses[id].(*types.Builtin); isB {
			if id.Name == "new" && len(c.Args) == 1 {
				return zeroOf(e.info.TypeOf(c.Args[0]))
			}
			return opaque()
		}
	}
	var fn *types.Func
	var recv ast.Expr
	switch f := unparen(c.Fun).(type) {
	case *ast.Ident:
		fn, _ = e.info.Uses[f].(*types.Func)
	case *ast.SelectorExpr:
		fn, _ = e.info.Uses[f.Sel].(*types.Func)
		if e.info.Selections[f] != nil {
			recv = f.X
		}
	}
	if fn == nil || fn.Pkg() == nil || !strings.HasPrefix(fn.Pkg().Path(), modPath) {
		return opaque()
	}
	// the request's own sequence getter
	if recv != nil && fn.Name() == "GetSequenceID" && len(c.Args) == 0 {
		if rv := e.eval(recv); rv.kind == "req" && rv.path == "" {
			return &rval{kind: "reqseq"}
		}
	}
	fd := e.w.funcs[fn]
	if fd == nil || fd.Body == nil || e.depth > 4 {
		return opaque()
	}
	ne := &renv{w: e.w, info: e.w.infoOf[fd], vars: map[types.Object]*rval{}, depth: e.depth + 1}
	if recv != nil {
		if fd.Recv == nil || len(fd.Recv.List) != 1 || len(fd.Recv.List[0].Names) != 1 {
			return opaque()
		}
		ne.vars[ne.info.ObjectOf(fd.Recv.List[0].Names[0])] = e.eval(recv)
	}
	idx := 0
	for _, pf := range fd.Type.Params.List {
		for _, nm := range pf.Names {
			if idx >= len(c.Args) {
				return opaque()
			}
			ne.vars[ne.info.ObjectOf(nm)] = e.eval(c.Args[idx])
			idx++
		}
	}
	if idx != len(c.Args) {
		return opaque()
	}
	// named results start at zero
	if fd.Type.Results != nil {
		for _, rf := range fd.Type.Results.List {
			for _, nm := range rf.Names {
				ne.vars[ne.info.ObjectOf(nm)] = zeroOf(ne.info.ObjectOf(nm).Type())
			}
		}
	}
	if v, ok := ne.block(fd.Body.List, fd); ok && v != nil {
		return v
	}
	return opaque()
}

// lhs resolves an assignable expression to the slot it denotes
func (e *renv) store(lhs ast.Expr, v *rval) bool {
	lhs = unparen(lhs)
	switch t := lhs.(type) {
	case *ast.Ident:
		if t.Name == "_" {
			return true
		}
		if o := e.info.ObjectOf(t); o != nil {
			e.vars[o] = v
			return true
		}
	case *ast.StarExpr:
		return e.store(t.X, v)
	case *ast.SelectorExpr, *ast.IndexExpr:
		slot := e.eval(lhs)
		if slot.kind == "opaque" || slot.kind == "req" || slot.kind == "reqseq" {
			return false // not a local struct (writing to the request is not a response construction)
		}
		*slot = *v
		return true
	}
	return false
}

// copyVal: struct and array values are copied on assignment
func copyVal(v *rval) *rval {
	c := *v
	if v.fields != nil {
		c.fields = map[string]*rval{}
		for k, f := range v.fields {
			c.fields[k] = copyVal(f)
		}
	}
	if v.elems != nil {
		c.elems = nil
		for _, el := range v.elems {
			c.elems = append(c.elems, copyVal(el))
		}
	}
	return &c
}

// block executes statements; returns the returned value (nil if none yet), ok=false if something was not understood
func (e *renv) block(stmts []ast.Stmt, fd *ast.FuncDecl) (*rval, bool) {
	for _, st := range stmts {
		switch s := st.(type) {
		case *ast.DeclStmt:
			gd, ok := s.Decl.(*ast.GenDecl)
			if !ok || (gd.Tok != token.VAR && gd.Tok != token.CONST) {
				return nil, false
			}
			if gd.Tok == token.CONST {
				continue
			}
			for _, sp := range gd.Specs {
				vs := sp.(*ast.ValueSpec)
				for i, nm := range vs.Names {
					o := e.info.ObjectOf(nm)
					if i < len(vs.Values) {
						e.vars[o] = copyVal(e.eval(vs.Values[i]))
					} else {
						e.vars[o] = zeroOf(o.Type())
					}
				}
			}
		case *ast.AssignStmt:
			if s.Tok != token.ASSIGN && s.Tok != token.DEFINE {
				return nil, false
			}
			if len(s.Lhs) != len(s.Rhs) {
				return nil, false
			}
			var vs []*rval
			for _, r := range s.Rhs {
				v := e.eval(r)
				if _, isPtr := e.info.TypeOf(r).Underlying().(*types.Pointer); !isPtr {
					v = copyVal(v)
				}
				vs = append(vs, v)
			}
			for i, l := range s.Lhs {
				if !e.store(l, vs[i]) {
					return nil, false
				}
			}
		case *ast.RangeStmt:
			// over a fixed-size array (of the request or local): unrolled
			n, _, isArr := arrayLen(e.info.TypeOf(s.X))
			if !isArr || s.Tok != token.DEFINE {
				return nil, false
			}
			arr := e.eval(s.X)
			for i := int64(0); i < n; i++ {
				if id, ok := s.Key.(*ast.Ident); ok && s.Key != nil && id.Name != "_" {
					e.vars[e.info.ObjectOf(id)] = &rval{kind: "const", n: uint64(i)}
				}
				if s.Value != nil {
					if id, ok := s.Value.(*ast.Ident); ok && id.Name != "_" {
						e.vars[e.info.ObjectOf(id)] = arr.index(i, nil)
					}
				}
				if v, ok := e.block(s.Body.List, fd); !ok || v != nil {
					return nil, false
				}
			}
		case *ast.SwitchStmt:
			// switch <request field> { case A, B: x = C / return C … }: a table on that field
			if s.Init != nil || s.Tag == nil {
				return nil, false
			}
			tag := e.eval(s.Tag)
			if tag.kind != "req" {
				return nil, false
			}
			var rows []string
			var target ast.Expr
			returns, assigns := 0, 0
			var def *uint64
			for _, cs := range s.Body.List {
				cc := cs.(*ast.CaseClause)
				if len(cc.Body) != 1 {
					return nil, false
				}
				var val *rval
				switch b := cc.Body[0].(type) {
				case *ast.ReturnStmt:
					if len(b.Results) != 1 {
						return nil, false
					}
					val = e.eval(b.Results[0])
					returns++
				case *ast.AssignStmt:
					if b.Tok != token.ASSIGN || len(b.Lhs) != 1 || len(b.Rhs) != 1 {
						return nil, false
					}
					if target != nil && types.ExprString(target) != types.ExprString(b.Lhs[0]) {
						return nil, false
					}
					target = b.Lhs[0]
					val = e.eval(b.Rhs[0])
					assigns++
				default:
					return nil, false
				}
				if val.kind == "req" && val.path == tag.path && cc.List != nil {
					// case A, B: return <the field itself>
					for _, c := range cc.List {
						k, ok := constU64(e.info, c)
						if !ok {
							return nil, false
						}
						rows = append(rows, fmt.Sprintf("(%d, %d)", k, k))
					}
					continue
				}
				if val.kind != "const" {
					return nil, false
				}
				if cc.List == nil {
					d := val.n
					def = &d
					continue
				}
				for _, c := range cc.List {
					k, ok := constU64(e.info, c)
					if !ok {
						return nil, false
					}
					rows = append(rows, fmt.Sprintf("(%d, %d)", k, val.n))
				}
			}
			if returns > 0 && assigns > 0 {
				return nil, false
			}
			if assigns > 0 {
				cur := e.eval(target)
				d := cur.n
				if def != nil {
					d = *def
				} else if cur.kind != "const" {
					return nil, false
				}
				if !e.store(target, &rval{kind: "byreq", path: tag.path, rows: rows, def: d}) {
					return nil, false
				}
				continue
			}
			// returning switch: the default is the clause without a list, or the statement that follows
			if def != nil {
				return &rval{kind: "byreq", path: tag.path, rows: rows, def: *def}, true
			}
			e.pendingRows, e.pendingPath = rows, tag.path
		case *ast.IfStmt:
			// if <request field> == CONST { return CONST }: one row of a table, the rest follows
			if s.Init != nil || s.Else != nil || len(s.Body.List) != 1 {
				return nil, false
			}
			b, ok := unparen(s.Cond).(*ast.BinaryExpr)
			r, ok2 := s.Body.List[0].(*ast.ReturnStmt)
			if !ok || !ok2 || b.Op != token.EQL || len(r.Results) != 1 {
				return nil, false
			}
			l, k := e.eval(b.X), e.eval(b.Y)
			if l.kind == "const" && k.kind == "req" {
				l, k = k, l
			}
			v := e.eval(r.Results[0])
			if l.kind != "req" || k.kind != "const" || v.kind != "const" || (e.pendingPath != "" && e.pendingPath != l.path) {
				return nil, false
			}
			e.pendingPath = l.path
			e.pendingRows = append(e.pendingRows, fmt.Sprintf("(%d, %d)", k.n, v.n))
		case *ast.ReturnStmt:
			if len(s.Results) == 0 {
				// naked return: the first named result
				if fd != nil && fd.Type.Results != nil && len(fd.Type.Results.List) > 0 && len(fd.Type.Results.List[0].Names) > 0 {
					return e.vars[e.info.ObjectOf(fd.Type.Results.List[0].Names[0])], true
				}
				return nil, false
			}
			v := e.eval(s.Results[0])
			if e.pendingPath != "" {
				if v.kind != "const" {
					return nil, false
				}
				v = &rval{kind: "byreq", path: e.pendingPath, rows: e.pendingRows, def: v.n}
				e.pendingPath, e.pendingRows = "", nil
			}
			return v, true
		default:
			return nil, false
		}
	}
	return nil, true
}

// flatten lists the leaves of a struct value by field path
func flattenVal(prefix string, v *rval, out map[string]*rval) {
	switch v.kind {
	case "struct":
		for k, f := range v.fields {
			p := k
			if prefix != "" {
				p = prefix + "." + k
			}
			flattenVal(p, f, out)
		}
	case "array":
		for i, el := range v.elems {
			flattenVal(fmt.Sprintf("%s.%d", prefix, i), el, out)
		}
	default:
		out[prefix] = v
	}
}

// respByEval: GenEmptyResponse evaluated; "" if it cannot be read
func (w *world) respByEval(pi pduInfo, getSeq string) (string, string) {
	fd, info := w.methodOf(pi.named, "GenEmptyResponse")
	if fd == nil || fd.Body == nil {
		return "", ""
	}
	e := &renv{w: w, info: info, vars: map[types.Object]*rval{}}
	if recv := recvObj(info, fd); recv != nil {
		e.vars[recv] = &rval{kind: "req", path: ""}
	}
	v, ok := e.block(fd.Body.List, fd)
	if !ok || v == nil {
		return "", ""
	}
	if v.kind == "const" && v.n == 0 {
		return "", ""
	}
	if v.kind != "struct" || v.typ == nil {
		return "", ""
	}
	rt, ok := v.typ.(*types.Named)
	if !ok {
		return "", ""
	}
	rname := rt.Obj().Pkg().Name() + "." + rt.Obj().Name()
	leaves := map[string]*rval{}
	flattenVal("", v, leaves)
	keys := make([]string, 0, len(leaves))
	for k := range leaves {
		keys = append(keys, k)
	}
	sort.Strings(keys)
	cmdField, rcmd, seqField := "", "", ""
	seqOK := false
	for _, k := range keys {
		lf := leaves[k]
		last := k[strings.LastIndexByte(k, '.')+1:]
		if last == "CommandID" || last == "ID" {
			cmdField = k
			switch lf.kind {
			case "const":
				rcmd = fmt.Sprintf("(.const %d)", lf.n)
			case "byreq":
				rcmd = fmt.Sprintf("(.byReq %s [%s] %d)", q(lf.path), strings.Join(lf.rows, ", "), lf.def)
			}
		}
		isSeq := lf.kind == "reqseq" || (lf.kind == "req" && (lf.path == getSeq || (strings.HasPrefix(getSeq, lf.path+".") && lf.path == k)))
		if isSeq && (last == "SequenceID" || last == "Sequence" || last == "2") {
			seqField, seqOK = k, true
		}
	}
	if rcmd == "" || cmdField == "" {
		return "", ""
	}
	// sequence words (SGIP): where each word of the response's sequence array comes from
	words := "[]"
	if k := strings.LastIndexByte(getSeq, '.'); k >= 0 {
		if _, err := strconv.Atoi(getSeq[k+1:]); err == nil {
			arr, serial := getSeq[:k], getSeq[k+1:]
			var rows []string
			whole := true
			if lf, ok := leaves[arr]; ok { // the whole array copied
				if lf.kind == "req" && lf.path == arr {
					words = "[(0, some 0), (1, some 1), (2, some 2)]"
				} else {
					words = "[(0, none), (1, none), (2, none)]"
				}
			} else {
				for _, f := range keys {
					if !strings.HasPrefix(f, arr+".") {
						continue
					}
					i := f[len(arr)+1:]
					src := "none"
					switch lf := leaves[f]; {
					case lf.kind == "reqseq":
						src = "some " + serial
					case lf.kind == "req" && strings.HasPrefix(lf.path, arr+"."):
						src = "some " + lf.path[len(arr)+1:]
					}
					if src != "some "+i {
						whole = false
					}
					rows = append(rows, fmt.Sprintf("(%s, %s)", i, src))
				}
				words = "[" + strings.Join(rows, ", ") + "]"
				if whole && len(rows) == 3 {
					// every word copied in place: the same as copying the array
					seqField, seqOK = arr, true
				}
			}
		}
	}
	return fmt.Sprintf(".some %s %s %s %s %v", q(rname), rcmd, q(cmdField), q(seqField), seqOK), words
}
