package main

// Storage provenance of the byte slices the packet reader hands out (C12): for every method of
// packet.Reader with a []byte result, what the returned slice is backed by —
//   fresh : nil, an empty literal, a slice made in the call (make / append to a nil or made slice),
//           or the result of a library function that is itself fresh, possibly re-sliced;
//   view  : storage owned by someone else (the reader's buffer: p.buffer.Bytes(), p.buffer.Next(n), a field);
//   unknown : anything else.
// Every return statement must agree.  Decoders copy what they keep out of a `view` (ParseOptions copies
// each value), and store `fresh` results directly (smpp34 ShortMessage = b.ReadNBytes(n)).

import (
	"fmt"
	"go/ast"
	"go/types"
	"sort"
	"strings"
)

func (w *world) retProvOf(fn *types.Func, depth int) string {
	fd := w.funcs[fn]
	if fd == nil || fd.Body == nil || depth > 4 {
		return "unknown"
	}
	info := w.infoOf[fd]
	// which result index is the []byte
	sig := fn.Type().(*types.Signature)
	ri := -1
	for i := 0; i < sig.Results().Len(); i++ {
		if isByteSlice(sig.Results().At(i).Type()) {
			ri = i
		}
	}
	if ri < 0 {
		return "unknown"
	}
	// definitions of local slice variables: var → classes of everything assigned to it
	defs := map[types.Object][]ast.Expr{}
	multi := map[types.Object][]*ast.CallExpr{} // temp, ok := f(...)  (first result)
	ast.Inspect(fd.Body, func(n ast.Node) bool {
		as, ok := n.(*ast.AssignStmt)
		if !ok {
			return true
		}
		if len(as.Lhs) == len(as.Rhs) {
			for i, l := range as.Lhs {
				if id, ok := l.(*ast.Ident); ok && id.Name != "_" {
					if o := info.ObjectOf(id); o != nil {
						defs[o] = append(defs[o], as.Rhs[i])
					}
				}
			}
		} else if len(as.Rhs) == 1 {
			if c, ok := as.Rhs[0].(*ast.CallExpr); ok {
				if id, ok := as.Lhs[0].(*ast.Ident); ok && id.Name != "_" {
					if o := info.ObjectOf(id); o != nil {
						multi[o] = append(multi[o], c)
					}
				}
			}
		}
		return true
	})
	var classify func(x ast.Expr, seen map[types.Object]bool) string
	// fresh < view < unknown: a function that returns a view on one path is a view
	rank := map[string]int{"": -1, "fresh": 0, "view": 1, "unknown": 2}
	join := func(a, b string) string {
		if rank[a] >= rank[b] {
			return a
		}
		return b
	}
	classifyCall := func(c *ast.CallExpr, seen map[types.Object]bool) string {
		if f, ok := c.Fun.(*ast.Ident); ok {
			if _, isB := info.Uses[f].(*types.Builtin); isB {
				switch f.Name {
				case "make":
					return "fresh"
				case "append":
					if len(c.Args) >= 1 {
						return classify(c.Args[0], seen) // append(x, …) lives in x's storage unless it grows; fresh only if x is
					}
				}
				return "unknown"
			}
		}
		// conversion []byte(nil) / []byte("…")
		if tv, ok := info.Types[c.Fun]; ok && tv.IsType() && len(c.Args) == 1 {
			if id, ok := unparen(c.Args[0]).(*ast.Ident); ok && id.Name == "nil" {
				return "fresh"
			}
			if b, ok := info.TypeOf(c.Args[0]).Underlying().(*types.Basic); ok && b.Info()&types.IsString != 0 {
				return "fresh" // []byte(string) copies
			}
			return classify(c.Args[0], seen)
		}
		name := calleeFullName(info, c)
		switch name {
		case "(*bytes.Buffer).Bytes", "(*bytes.Buffer).Next":
			return "view"
		}
		// a library function or method: its own provenance
		var callee *types.Func
		switch f := unparen(c.Fun).(type) {
		case *ast.Ident:
			callee, _ = info.Uses[f].(*types.Func)
		case *ast.SelectorExpr:
			callee, _ = info.Uses[f.Sel].(*types.Func)
		}
		if callee != nil && callee.Pkg() != nil && strings.HasPrefix(callee.Pkg().Path(), modPath) {
			return w.retProvOf(callee, depth+1)
		}
		return "unknown"
	}
	classify = func(x ast.Expr, seen map[types.Object]bool) string {
		x = unparen(x)
		switch e := x.(type) {
		case *ast.Ident:
			if e.Name == "nil" {
				return "fresh"
			}
			o := info.ObjectOf(e)
			if o == nil || seen[o] {
				return "unknown"
			}
			if v, ok := o.(*types.Var); ok && (v.IsField() || v.Parent() == v.Pkg().Scope()) {
				return "view"
			}
			seen[o] = true
			defer delete(seen, o)
			r := ""
			for _, d := range defs[o] {
				r = join(r, classify(d, seen))
			}
			for _, c := range multi[o] {
				r = join(r, classifyCall(c, seen))
			}
			if r == "" {
				return "unknown" // a parameter or something never assigned here
			}
			return r
		case *ast.CompositeLit:
			return "fresh"
		case *ast.SliceExpr:
			return classify(e.X, seen)
		case *ast.SelectorExpr:
			return "view" // p.scratch.B, p.buf …
		case *ast.CallExpr:
			return classifyCall(e, seen)
		}
		return "unknown"
	}
	res := ""
	named := sig.Results().At(ri).Name() != ""
	ast.Inspect(fd.Body, func(n ast.Node) bool {
		if _, ok := n.(*ast.FuncLit); ok {
			return false
		}
		r, ok := n.(*ast.ReturnStmt)
		if !ok {
			return true
		}
		switch {
		case len(r.Results) == sig.Results().Len():
			res = join(res, classify(r.Results[ri], map[types.Object]bool{}))
		case len(r.Results) == 1 && sig.Results().Len() > 1:
			// return f(…): the callee's results are handed on as they are
			if c, ok := unparen(r.Results[0]).(*ast.CallExpr); ok {
				res = join(res, classifyCall(c, map[types.Object]bool{}))
			} else {
				res = join(res, "unknown")
			}
		case len(r.Results) == 0 && named:
			res = join(res, "unknown")
		default:
			res = join(res, "unknown")
		}
		return true
	})
	if res == "" {
		return "unknown"
	}
	return res
}

func (w *world) genReaderProv() string {
	var rows []string
	var fns []*types.Func
	for fn := range w.funcs {
		sig := fn.Type().(*types.Signature)
		if fn.Pkg() == nil || fn.Pkg().Path() != modPath+"/packet" || sig.Recv() == nil || !fn.Exported() {
			continue
		}
		if !strings.HasSuffix(sig.Recv().Type().String(), "packet.Reader") {
			continue
		}
		for i := 0; i < sig.Results().Len(); i++ {
			if isByteSlice(sig.Results().At(i).Type()) {
				fns = append(fns, fn)
				break
			}
		}
	}
	sort.Slice(fns, func(i, j int) bool { return fns[i].FullName() < fns[j].FullName() })
	for _, fn := range fns {
		fd := w.funcs[fn]
		if fd == nil || strings.HasSuffix(w.fset.Position(fd.Pos()).Filename, "_test.go") {
			continue
		}
		rows = append(rows, fmt.Sprintf("(%s, %s)", q(funcDisplayName(fn)), q(w.retProvOf(fn, 0))))
	}
	return fmt.Sprintf("/-- what the byte slices returned by the packet reader are backed by: fresh (made in the call), view (the reader's own buffer), unknown -/\ndef readerProv : List (String × String) := %s\n\n", leanList(rows, "  "))
}
