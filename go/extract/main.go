// Command extract is the translator of the verification framework: it reads the Go source of
// /repo's working tree (go/packages: syntax + types) and writes Lean data describing the
// declarative part of the code — PDU field layouts for IEncode and IDecode, struct field lists,
// command ids, response constructors, sequence accessors, dispatcher tables, lookup tables and
// constants — into lean/SmsVerif/Gen/*.lean.  It recognises a closed set of statement forms;
// anything else becomes an explicit `unsupported "<file:line>"` node which every decidable
// checker on the Lean side rejects.  It never guesses.
package main

import (
	"encoding/json"
	"flag"
	"fmt"
	"go/ast"
	"go/constant"
	"go/token"
	"go/types"
	"os"
	"path/filepath"
	"sort"
	"strings"

	"golang.org/x/tools/go/packages"
)

const modPath = "github.com/hujm2023/go-sms-protocol"

type world struct {
	pkgs   map[string]*packages.Package // by import path
	fset   *token.FileSet
	funcs  map[*types.Func]*ast.FuncDecl
	infoOf map[*ast.FuncDecl]*types.Info
	repo   string
	// side result of respSpec: where the words of an array-valued sequence number of the response come from
	lastSeqWords string
}

func main() {
	repo := flag.String("repo", "/repo", "repository root")
	out := flag.String("out", "/verif/lean/SmsVerif/Gen", "output directory")
	flag.Parse()

	cfg := &packages.Config{
		Mode: packages.NeedName | packages.NeedFiles | packages.NeedSyntax | packages.NeedTypes | packages.NeedTypesInfo | packages.NeedImports | packages.NeedDeps,
		Dir:  *repo,
		Env:  append(os.Environ(), "GOFLAGS=-mod=mod", "GOPROXY=off", "GOSUMDB=off", "GOTOOLCHAIN=local"),
	}
	pkgs, err := packages.Load(cfg, "./...")
	if err != nil {
		fmt.Fprintln(os.Stderr, "load:", err)
		os.Exit(1)
	}
	w := &world{pkgs: map[string]*packages.Package{}, funcs: map[*types.Func]*ast.FuncDecl{}, infoOf: map[*ast.FuncDecl]*types.Info{}, repo: *repo}
	bad := false
	for _, p := range pkgs {
		for _, e := range p.Errors {
			fmt.Fprintln(os.Stderr, "package error:", e)
			bad = true
		}
		w.pkgs[p.PkgPath] = p
		w.fset = p.Fset
		for _, f := range p.Syntax {
			for _, d := range f.Decls {
				if fd, ok := d.(*ast.FuncDecl); ok {
					if obj, ok := p.TypesInfo.Defs[fd.Name].(*types.Func); ok {
						w.funcs[obj] = fd
						w.infoOf[fd] = p.TypesInfo
					}
				}
			}
		}
	}
	if bad {
		os.Exit(1)
	}
	if err := os.MkdirAll(*out, 0o755); err != nil {
		panic(err)
	}
	writeIfChanged(filepath.Join(*out, "Layouts.lean"), w.genLayouts())
	writeIfChanged(filepath.Join(*out, "layouts.json"), w.layoutsJSON())
	writeIfChanged(filepath.Join(*out, "Tables.lean"), w.genTables())
	writeIfChanged(filepath.Join(*out, "Lifecycle.lean"), w.genLifecycle())
	writeIfChanged(filepath.Join(*out, "Funcs.lean"), w.genFuncs())
}

func writeIfChanged(path, content string) {
	old, err := os.ReadFile(path)
	if err == nil && string(old) == content {
		return
	}
	if err := os.WriteFile(path, []byte(content), 0o644); err != nil {
		panic(err)
	}
	fmt.Println("wrote", path)
}

func (w *world) pos(n ast.Node) string {
	p := w.fset.Position(n.Pos())
	rel, err := filepath.Rel(w.repo, p.Filename)
	if err != nil {
		rel = p.Filename
	}
	return fmt.Sprintf("%s:%d", rel, p.Line)
}

func q(s string) string { return fmt.Sprintf("%q", s) }

// ---------------------------------------------------------------------------------------------
// struct flattening

type field struct {
	path string
	ty   string // Lean FTy term
}

func uintBytes(t types.Type) int {
	b, ok := t.Underlying().(*types.Basic)
	if !ok {
		return 0
	}
	switch b.Kind() {
	case types.Uint8:
		return 1
	case types.Uint16:
		return 2
	case types.Uint32:
		return 4
	case types.Uint64:
		return 8
	}
	return 0
}

func isInt(t types.Type) bool {
	b, ok := t.Underlying().(*types.Basic)
	return ok && (b.Kind() == types.Int || b.Kind() == types.Int64 || b.Kind() == types.UntypedInt)
}

func (w *world) flatten(prefix string, t types.Type, out *[]field) {
	if k := uintBytes(t); k > 0 {
		*out = append(*out, field{prefix, fmt.Sprintf(".u %d", k)})
		return
	}
	switch u := t.Underlying().(type) {
	case *types.Basic:
		if u.Kind() == types.String {
			*out = append(*out, field{prefix, ".str"})
			return
		}
	case *types.Slice:
		if b, ok := u.Elem().Underlying().(*types.Basic); ok {
			if b.Kind() == types.Uint8 {
				*out = append(*out, field{prefix, ".bytes"})
				return
			}
			if b.Kind() == types.String {
				*out = append(*out, field{prefix, ".strs"})
				return
			}
		}
	case *types.Array:
		for i := int64(0); i < u.Len(); i++ {
			w.flatten(fmt.Sprintf("%s.%d", prefix, i), u.Elem(), out)
		}
		return
	case *types.Map:
		if n, ok := t.(*types.Named); ok && (n.Obj().Name() == "TLVs" || n.Obj().Name() == "Options") {
			*out = append(*out, field{prefix, ".tlvs"})
			return
		}
	case *types.Struct:
		for i := 0; i < u.NumFields(); i++ {
			f := u.Field(i)
			p := f.Name()
			if prefix != "" {
				p = prefix + "." + f.Name()
			}
			w.flatten(p, f.Type(), out)
		}
		return
	}
	*out = append(*out, field{prefix, fmt.Sprintf(".str /- unsupported type %s -/", t.String())})
}

// ---------------------------------------------------------------------------------------------
// expression translation

type env struct {
	info     *types.Info
	paths    map[types.Object]string // identifiers denoting (parts of) the PDU value → field path prefix ("" = the PDU itself)
	locals   map[types.Object]string // single-assignment integer locals → Lean Expr
	bytesL   map[types.Object]string // locals holding a byte-string derived from a field: "hexdec:<path>"
	writer   types.Object
	reader   types.Object
	loopIx   types.Object              // index variable of the enclosing counted loop
	alias    map[types.Object]ast.Expr // decode helpers: `raw := b.ReadX(n)` used once in the returned expression
	inHelper bool                      // translating the body of an inlined library function
	copies   []string                  // field-path prefixes a by-value parameter / receiver stands for: assignments through them are lost
	depth    int                       // nesting of inlined integer helpers
	errOnly  bool                      // the inlined helper returns only an error: `return err` after the hex check, `return nil` at the end
	parent   *env                      // tables: the environment of the caller whose values the parameters stand for
}

func (e *env) root() *env {
	for e.parent != nil {
		e = e.parent
	}
	return e
}

func (e *env) clone() *env {
	c := *e
	c.paths = map[types.Object]string{}
	for k, v := range e.paths {
		c.paths[k] = v
	}
	c.locals = map[types.Object]string{}
	for k, v := range e.locals {
		c.locals[k] = v
	}
	c.bytesL = map[types.Object]string{}
	for k, v := range e.bytesL {
		c.bytesL[k] = v
	}
	c.alias = map[types.Object]ast.Expr{}
	for k, v := range e.alias {
		c.alias[k] = v
	}
	return &c
}

func unparen(x ast.Expr) ast.Expr {
	for {
		p, ok := x.(*ast.ParenExpr)
		if !ok {
			return x
		}
		x = p.X
	}
}

// fieldPath resolves p.F, p.Header.F, h.F, p.Seq[0] to a flattened path.
func (w *world) fieldPath(e *env, x ast.Expr) (string, bool) {
	x = unparen(x)
	switch v := x.(type) {
	case *ast.Ident:
		if p, ok := e.paths[e.info.ObjectOf(v)]; ok {
			return p, true
		}
	case *ast.StarExpr:
		return w.fieldPath(e, v.X)
	case *ast.SelectorExpr:
		base, ok := w.fieldPath(e, v.X)
		if !ok {
			return "", false
		}
		sel := e.info.Selections[v]
		if sel == nil || sel.Kind() != types.FieldVal {
			return "", false
		}
		// walk embedded fields explicitly so that promoted fields get their full path
		t := sel.Recv()
		path := base
		for i, idx := range sel.Index() {
			if ptr, ok := t.Underlying().(*types.Pointer); ok {
				t = ptr.Elem()
			}
			st, ok := t.Underlying().(*types.Struct)
			if !ok {
				return "", false
			}
			f := st.Field(idx)
			if path == "" {
				path = f.Name()
			} else {
				path = path + "." + f.Name()
			}
			t = f.Type()
			_ = i
		}
		return path, true
	case *ast.IndexExpr:
		base, ok := w.fieldPath(e, v.X)
		if !ok {
			return "", false
		}
		if tv, ok := e.info.Types[v.Index]; ok && tv.Value != nil {
			if _, isArr := e.info.TypeOf(v.X).Underlying().(*types.Array); isArr {
				n, _ := constant.Int64Val(tv.Value)
				return fmt.Sprintf("%s.%d", base, n), true
			}
		}
	}
	return "", false
}

// intExpr translates an integer-valued Go expression to a Lean `Expr`, making wrap-around explicit.
func (w *world) intExpr(e *env, x ast.Expr) (string, bool) {
	x = unparen(x)
	if tv, ok := e.info.Types[x]; ok && tv.Value != nil && tv.Value.Kind() == constant.Int {
		if n, exact := constant.Uint64Val(tv.Value); exact {
			return fmt.Sprintf("(.lit %d)", n), true
		}
		return "", false
	}
	wrap := func(s string, t types.Type) string {
		if k := uintBytes(t); k > 0 {
			return fmt.Sprintf("(.conv %d %s)", k, s)
		}
		return s
	}
	switch v := x.(type) {
	case *ast.Ident:
		if s, ok := e.locals[e.info.ObjectOf(v)]; ok {
			return s, true
		}
		// a value parameter / result variable of an inlined helper that stands for a field
		if p, ok := e.paths[e.info.ObjectOf(v)]; ok && p != "" && uintBytes(e.info.TypeOf(x)) > 0 {
			return fmt.Sprintf("(.fld %s)", q(p)), true
		}
	case *ast.SelectorExpr, *ast.IndexExpr:
		if p, ok := w.fieldPath(e, x); ok {
			t := e.info.TypeOf(x)
			if uintBytes(t) > 0 {
				return fmt.Sprintf("(.fld %s)", q(p)), true
			}
		}
	case *ast.CallExpr:
		// conversion T(x)
		if tv, ok := e.info.Types[v.Fun]; ok && tv.IsType() && len(v.Args) == 1 {
			inner, ok := w.intExpr(e, v.Args[0])
			if !ok {
				return "", false
			}
			if k := uintBytes(tv.Type); k > 0 {
				return fmt.Sprintf("(.conv %d %s)", k, inner), true
			}
			if isInt(tv.Type) {
				return inner, true // int is 64-bit; the values converted here are at most 32 bits wide
			}
			return "", false
		}
		// len(p.F)
		if id, ok := v.Fun.(*ast.Ident); ok && id.Name == "len" && len(v.Args) == 1 {
			if _, isB := e.info.Uses[id].(*types.Builtin); isB {
				if p, ok := w.fieldPath(e, v.Args[0]); ok {
					return fmt.Sprintf("(.lenOf %s)", q(p)), true
				}
			}
		}
		// x.M() for a method that just converts its receiver: func (s T) M() U { return U(s) }
		if sel, ok := v.Fun.(*ast.SelectorExpr); ok && len(v.Args) == 0 {
			if fn, ok := e.info.Uses[sel.Sel].(*types.Func); ok {
				if fd := w.funcs[fn]; fd != nil && fd.Recv != nil && len(fd.Recv.List) == 1 && len(fd.Recv.List[0].Names) == 1 &&
					fd.Body != nil && len(fd.Body.List) == 1 {
					if ret, ok := fd.Body.List[0].(*ast.ReturnStmt); ok && len(ret.Results) == 1 {
						finfo := w.infoOf[fd]
						if call, ok := unparen(ret.Results[0]).(*ast.CallExpr); ok && len(call.Args) == 1 {
							if tv, ok := finfo.Types[call.Fun]; ok && tv.IsType() {
								if id, ok := unparen(call.Args[0]).(*ast.Ident); ok && finfo.ObjectOf(id) == finfo.ObjectOf(fd.Recv.List[0].Names[0]) {
									inner, ok := w.intExpr(e, sel.X)
									if ok {
										return wrap(inner, tv.Type), true
									}
								}
							}
						}
					}
				}
			}
		}
		// p.bodyLength() / fixedPart(p.N): a library function or method whose body is `return <integer expression>`
		if e.depth < 4 {
			if fd, ne, ok := w.bindCall(e, v); ok && len(fd.Body.List) == 1 && ne.writer == nil && ne.reader == nil {
				if ret, ok := fd.Body.List[0].(*ast.ReturnStmt); ok && len(ret.Results) == 1 {
					ne.depth = e.depth + 1
					if inner, ok := w.intExpr(ne, ret.Results[0]); ok {
						if rt := e.info.TypeOf(x); uintBytes(rt) > 0 {
							return fmt.Sprintf("(.conv %d %s)", uintBytes(rt), inner), true
						} else if isInt(rt) {
							return inner, true
						}
					}
				}
			}
		}
	case *ast.StarExpr:
		if p, ok := w.fieldPath(e, x); ok && uintBytes(e.info.TypeOf(x)) > 0 {
			return fmt.Sprintf("(.fld %s)", q(p)), true
		}
	case *ast.BinaryExpr:
		if v.Op == token.ADD || v.Op == token.MUL {
			a, ok1 := w.intExpr(e, v.X)
			b, ok2 := w.intExpr(e, v.Y)
			if ok1 && ok2 {
				op := ".add"
				if v.Op == token.MUL {
					op = ".mul"
				}
				return wrap(fmt.Sprintf("(%s %s %s)", op, a, b), e.info.TypeOf(x)), true
			}
		}
	}
	return "", false
}

func (w *world) condExpr(e *env, x ast.Expr) (string, bool) {
	x = unparen(x)
	b, ok := x.(*ast.BinaryExpr)
	if !ok {
		return "", false
	}
	switch b.Op {
	case token.LAND:
		l, ok1 := w.condExpr(e, b.X)
		r, ok2 := w.condExpr(e, b.Y)
		if ok1 && ok2 {
			return fmt.Sprintf("(.and %s %s)", l, r), true
		}
	case token.EQL, token.NEQ:
		l, ok1 := w.intExpr(e, b.X)
		r, ok2 := w.intExpr(e, b.Y)
		if ok1 && ok2 {
			op := ".eq"
			if b.Op == token.NEQ {
				op = ".ne"
			}
			return fmt.Sprintf("(%s %s %s)", op, l, r), true
		}
	}
	return "", false
}

// callee returns the *types.Func a call expression invokes, plus the receiver expression for methods.
func (w *world) callee(e *env, c *ast.CallExpr) (*types.Func, ast.Expr) {
	switch f := unparen(c.Fun).(type) {
	case *ast.Ident:
		if fn, ok := e.info.Uses[f].(*types.Func); ok {
			return fn, nil
		}
	case *ast.SelectorExpr:
		if fn, ok := e.info.Uses[f.Sel].(*types.Func); ok {
			if sel := e.info.Selections[f]; sel != nil {
				return fn, f.X
			}
			return fn, nil // package-qualified function
		}
	}
	return nil, nil
}

func fullName(fn *types.Func) string {
	if fn == nil {
		return ""
	}
	return fn.FullName()
}

func isObj(e *env, x ast.Expr, o types.Object) bool {
	id, ok := unparen(x).(*ast.Ident)
	return ok && o != nil && e.info.ObjectOf(id) == o
}

func constInt(e *env, x ast.Expr) (int64, bool) {
	if tv, ok := e.info.Types[x]; ok && tv.Value != nil && tv.Value.Kind() == constant.Int {
		n, exact := constant.Int64Val(tv.Value)
		return n, exact
	}
	return 0, false
}

// ptrList: `p.counters()` where the method is `return [N]*T{&p.A, &p.B, …}` (or a slice literal): the fields pointed to
func (w *world) ptrList(e *env, x ast.Expr) ([]string, bool) {
	c, ok := unparen(x).(*ast.CallExpr)
	if !ok {
		return nil, false
	}
	fd, ne, ok := w.bindCall(e, c)
	if !ok || len(fd.Body.List) != 1 || len(ne.copies) > 0 {
		return nil, false
	}
	ret, ok := fd.Body.List[0].(*ast.ReturnStmt)
	if !ok || len(ret.Results) != 1 {
		return nil, false
	}
	cl, ok := unparen(ret.Results[0]).(*ast.CompositeLit)
	if !ok || len(cl.Elts) == 0 {
		return nil, false
	}
	var ps []string
	for _, el := range cl.Elts {
		u, ok := unparen(el).(*ast.UnaryExpr)
		if !ok || u.Op != token.AND {
			return nil, false
		}
		p, ok := w.fieldPath(ne, u.X)
		if !ok {
			return nil, false
		}
		ps = append(ps, p)
	}
	return ps, true
}

// lostWrites: does any of the operations assign a field through a by-value copy (the real code would lose it)?
func lostWrites(ne *env, ops []string, enc bool) bool {
	for _, c := range ne.copies {
		for _, o := range ops {
			if enc && !strings.HasPrefix(o, ".assign") {
				continue // writing a copy's fields to the wire is fine
			}
			if c == "" || strings.Contains(o, "\""+c+".") || strings.Contains(o, "\""+c+"\"") {
				return true
			}
		}
	}
	return false
}

// bindCall prepares the environment for inlining a call to a library function whose body is
// available: every parameter is bound to what the argument denotes in the caller — the writer, the
// reader, (part of) the PDU value (`p.Header`, `&p.Header`, `p`), an integer expression, or the raw
// input slice.  ok=false if some argument is none of these.
func (w *world) bindCall(e *env, c *ast.CallExpr) (*ast.FuncDecl, *env, bool) {
	fn, recv := w.callee(e, c)
	if fn == nil || fn.Pkg() == nil || !strings.HasPrefix(fn.Pkg().Path(), modPath) {
		return nil, nil, false
	}
	fd := w.funcs[fn]
	if fd == nil || fd.Body == nil {
		return nil, nil, false
	}
	finfo := w.infoOf[fd]
	ne := &env{info: finfo, paths: map[types.Object]string{}, locals: map[types.Object]string{}, bytesL: map[types.Object]string{}, inHelper: true}
	if recv != nil {
		// p.writeBody(b) / p.Header.write(b): a method of (part of) the PDU value; the receiver stands for that part
		rp, ok := w.fieldPath(e, recv)
		if !ok || fd.Recv == nil || len(fd.Recv.List) != 1 || len(fd.Recv.List[0].Names) != 1 {
			return nil, nil, false
		}
		if sel, isSel := unparen(c.Fun).(*ast.SelectorExpr); !isSel || e.info.Selections[sel] == nil || e.info.Selections[sel].Kind() != types.MethodVal {
			return nil, nil, false
		}
		if _, isIface := e.info.TypeOf(recv).Underlying().(*types.Interface); isIface {
			return nil, nil, false
		}
		ro := finfo.ObjectOf(fd.Recv.List[0].Names[0])
		ne.paths[ro] = rp
		if _, isPtr := ro.Type().Underlying().(*types.Pointer); !isPtr {
			ne.copies = append(ne.copies, rp)
		}
	}
	idx := 0
	for _, pf := range fd.Type.Params.List {
		for _, nm := range pf.Names {
			if idx >= len(c.Args) {
				return nil, nil, false
			}
			arg := unparen(c.Args[idx])
			idx++
			if u, ok := arg.(*ast.UnaryExpr); ok && u.Op == token.AND {
				arg = unparen(u.X)
			}
			obj := finfo.ObjectOf(nm)
			switch {
			case e.writer != nil && isObj(e, arg, e.writer):
				ne.writer = obj
			case e.reader != nil && isObj(e, arg, e.reader):
				ne.reader = obj
			default:
				if p, ok := w.fieldPath(e, arg); ok {
					ne.paths[obj] = p
					if _, isStruct := obj.Type().Underlying().(*types.Struct); isStruct {
						ne.copies = append(ne.copies, p) // passed by value
					}
				} else if x, ok := w.intExpr(e, arg); ok {
					ne.locals[obj] = x
				} else if id, ok := arg.(*ast.Ident); ok && isByteSlice(e.info.TypeOf(id)) {
					// the input image handed on (`data`)
				} else {
					return nil, nil, false
				}
			}
		}
	}
	if idx != len(c.Args) {
		return nil, nil, false
	}
	return fd, ne, true
}

func isByteSlice(t types.Type) bool {
	if t == nil {
		return false
	}
	sl, ok := t.Underlying().(*types.Slice)
	if !ok {
		return false
	}
	b, ok := sl.Elem().Underlying().(*types.Basic)
	return ok && b.Kind() == types.Uint8
}

// deref follows `x` to the expression it was defined by (decode helpers only)
func (w *world) deref(e *env, x ast.Expr) ast.Expr {
	x = unparen(x)
	for i := 0; i < 8; i++ {
		id, ok := x.(*ast.Ident)
		if !ok || e.alias == nil {
			return x
		}
		a, ok := e.alias[e.info.ObjectOf(id)]
		if !ok {
			return x
		}
		x = unparen(a)
	}
	return x
}

// arrayLen: the length of a fixed-size array field such as Header.Sequence ([3]uint32)
func arrayLen(t types.Type) (int64, types.Type, bool) {
	if t == nil {
		return 0, nil, false
	}
	if a, ok := t.Underlying().(*types.Array); ok {
		return a.Len(), a.Elem(), true
	}
	return 0, nil, false
}

// ---------------------------------------------------------------------------------------------
// IEncode

type encOut struct {
	ops []string
	fin string
}

func (w *world) unsup(n ast.Node) string { return fmt.Sprintf(".unsupported %s", q(w.pos(n))) }

// strArg classifies a string/[]byte argument: a field path, or a derived local.
func (w *world) strArg(e *env, x ast.Expr) (kind, path string, ok bool) {
	x = unparen(x)
	if p, ok := w.fieldPath(e, x); ok {
		return "field", p, true
	}
	if id, ok := x.(*ast.Ident); ok {
		if s, ok := e.bytesL[e.info.ObjectOf(id)]; ok {
			parts := strings.SplitN(s, ":", 2)
			return parts[0], parts[1], true
		}
	}
	if c, ok := x.(*ast.CallExpr); ok && len(c.Args) == 1 {
		// string(x) / []byte(x) conversions are transparent
		if tv, ok := e.info.Types[c.Fun]; ok && tv.IsType() {
			return w.strArg(e, c.Args[0])
		}
	}
	return "", "", false
}

func (w *world) encStmts(e *env, stmts []ast.Stmt, out *encOut) {
	for i, s := range stmts {
		// inside an inlined helper that returns nothing: `if len(x) == 0 { return }` directly in front of the one
		// statement that writes x's serialisation (writing no octets is what the writer does for an empty value)
		if ifs, ok := s.(*ast.IfStmt); ok && e.inHelper && i+2 == len(stmts) && ifs.Init == nil && ifs.Else == nil && len(ifs.Body.List) == 1 {
			if r, ok := ifs.Body.List[0].(*ast.ReturnStmt); ok && len(r.Results) == 0 {
				if b, ok := unparen(ifs.Cond).(*ast.BinaryExpr); ok && b.Op == token.EQL {
					if n, ok := constInt(e, b.Y); ok && n == 0 {
						if c, ok := unparen(b.X).(*ast.CallExpr); ok && len(c.Args) == 1 {
							if id, ok := c.Fun.(*ast.Ident); ok && id.Name == "len" {
								if lp, ok := w.fieldPath(e, c.Args[0]); ok {
									var tmp encOut
									w.encStmt(e, stmts[i+1], &tmp)
									if len(tmp.ops) == 1 && (tmp.ops[0] == fmt.Sprintf(".tlvs %s", q(lp)) || tmp.ops[0] == fmt.Sprintf(".raw %s", q(lp))) {
										out.ops = append(out.ops, tmp.ops[0])
										return
									}
								}
							}
						}
					}
				}
			}
		}
		w.encStmt(e, s, out)
	}
}

func (w *world) writerCall(e *env, c *ast.CallExpr, out *encOut, elemVar types.Object, elemList string) bool {
	fn, recv := w.callee(e, c)
	if fn == nil || recv == nil || !isObj(e, recv, e.writer) {
		return false
	}
	name := fn.Name()
	switch name {
	case "WriteUint8", "WriteUint16", "WriteUint32", "WriteUint64":
		k := map[string]int{"WriteUint8": 1, "WriteUint16": 2, "WriteUint32": 4, "WriteUint64": 8}[name]
		if x, ok := w.intExpr(e, c.Args[0]); ok {
			out.ops = append(out.ops, fmt.Sprintf(".num %d %s", k, x))
			return true
		}
	case "WriteCString":
		if k, p, ok := w.strArg(e, c.Args[0]); ok && k == "field" {
			out.ops = append(out.ops, fmt.Sprintf(".cstr %s", q(p)))
			return true
		}
	case "WriteString", "WriteBytes":
		if k, p, ok := w.strArg(e, c.Args[0]); ok && k == "field" {
			out.ops = append(out.ops, fmt.Sprintf(".raw %s", q(p)))
			return true
		}
		// b.WriteBytes(p.Header.Bytes()) / p.TLVs.Bytes() / p.Options.Serialize()
		if ic, ok := unparen(c.Args[0]).(*ast.CallExpr); ok {
			ifn, irecv := w.callee(e, ic)
			if ifn != nil && irecv != nil {
				if p, ok := w.fieldPath(e, irecv); ok {
					switch fullName(ifn) {
					case "(" + modPath + "/smpp.TLVs).Bytes", "(" + modPath + "/smgp.Options).Serialize":
						out.ops = append(out.ops, fmt.Sprintf(".tlvs %s", q(p)))
						return true
					}
					if ifn.Name() == "Bytes" && strings.HasSuffix(fullName(ifn), ".Header).Bytes") {
						if ops, ok := w.inlineHeaderBytes(ifn, p); ok {
							out.ops = append(out.ops, ops...)
							return true
						}
					}
				}
			}
		}
	case "WriteFixedLenString":
		k, p, ok := w.strArg(e, c.Args[0])
		// element of the enclosing loop?
		if !ok && elemVar != nil && isObj(e, c.Args[0], elemVar) {
			if n, ok := constInt(e, c.Args[1]); ok {
				out.ops = append(out.ops, fmt.Sprintf("ELEM %s %d", elemList, n))
				return true
			}
		}
		if !ok {
			if ix, ok2 := unparen(c.Args[0]).(*ast.IndexExpr); ok2 && e.loopIx != nil && isObj(e, ix.Index, e.loopIx) {
				if lp, ok3 := w.fieldPath(e, ix.X); ok3 {
					if n, ok := constInt(e, c.Args[1]); ok {
						out.ops = append(out.ops, fmt.Sprintf("ELEM %s %d", lp, n))
						return true
					}
				}
			}
			return false
		}
		if n, isConst := constInt(e, c.Args[1]); isConst {
			switch k {
			case "field":
				out.ops = append(out.ops, fmt.Sprintf(".fixed %s %d", q(p), n))
				return true
			case "hexdec":
				out.ops = append(out.ops, fmt.Sprintf(".hexFixed %s %d", q(p), n))
				return true
			}
		} else if x, ok := w.intExpr(e, c.Args[1]); ok && k == "field" {
			out.ops = append(out.ops, fmt.Sprintf(".fixedDyn %s %s", q(p), x))
			return true
		}
	}
	return false
}

// usedAsBufferArg: is the slice handed to bytes.NewBuffer (the binary.Write form) rather than filled directly?
func usedAsBufferArg(fd *ast.FuncDecl, info *types.Info, o types.Object) bool {
	hit := false
	ast.Inspect(fd.Body, func(n ast.Node) bool {
		if c, ok := n.(*ast.CallExpr); ok && types.ExprString(c.Fun) == "bytes.NewBuffer" && len(c.Args) == 1 {
			if id, ok := unparen(c.Args[0]).(*ast.Ident); ok && info.ObjectOf(id) == o {
				hit = true
			}
		}
		return !hit
	})
	return hit
}

// inlineHeaderBytes: func (h Header) Bytes() []byte { …; binary.Write(buf, binary.BigEndian, h.X); …; return buf.Bytes() }
func (w *world) inlineHeaderBytes(fn *types.Func, prefix string) ([]string, bool) {
	fd := w.funcs[fn]
	if fd == nil || fd.Body == nil || fd.Recv == nil || len(fd.Recv.List[0].Names) != 1 {
		return nil, false
	}
	info := w.infoOf[fd]
	e := &env{info: info, paths: map[types.Object]string{info.ObjectOf(fd.Recv.List[0].Names[0]): prefix}, locals: map[types.Object]string{}, bytesL: map[types.Object]string{}}
	var ops []string
	var putBuf types.Object
	var putLen, putOff int64
	for _, s := range fd.Body.List {
		switch st := s.(type) {
		case *ast.AssignStmt:
			if len(st.Rhs) == 1 {
				if c, ok := st.Rhs[0].(*ast.CallExpr); ok {
					cfn, _ := w.callee(e, c)
					switch fullName(cfn) {
					case "encoding/binary.Write":
						if len(c.Args) == 3 && types.ExprString(c.Args[1]) == "binary.BigEndian" {
							if p, ok := w.fieldPath(e, c.Args[2]); ok {
								if k := uintBytes(info.TypeOf(c.Args[2])); k > 0 {
									ops = append(ops, fmt.Sprintf(".num %d (.fld %s)", k, q(p)))
									continue
								}
							}
						}
						return nil, false
					case "bytes.NewBuffer":
						continue
					}
					if id, ok := c.Fun.(*ast.Ident); ok && id.Name == "make" {
						// b := make([]byte, N) filled by PutUintK calls below
						if lid, ok := st.Lhs[0].(*ast.Ident); ok && st.Tok == token.DEFINE && len(c.Args) == 2 && isByteSlice(info.TypeOf(st.Lhs[0])) && !usedAsBufferArg(fd, info, info.ObjectOf(lid)) {
							if n, ok := constInt(e, c.Args[1]); ok {
								putBuf, putLen = info.ObjectOf(lid), n
							}
						}
						continue
					}
				}
			}
			return nil, false
		case *ast.ExprStmt:
			// binary.BigEndian.PutUint32(b[off:], h.X) into a slice made above: the puts must tile the slice in order
			if c, ok := st.X.(*ast.CallExpr); ok && len(c.Args) == 2 {
				if se, ok := c.Fun.(*ast.SelectorExpr); ok && types.ExprString(se.X) == "binary.BigEndian" {
					k := map[string]int{"PutUint16": 2, "PutUint32": 4, "PutUint64": 8}[se.Sel.Name]
					if sl, ok := unparen(c.Args[0]).(*ast.SliceExpr); ok && k > 0 && sl.Max == nil && putBuf != nil && isObj(e, sl.X, putBuf) {
						lo := int64(0)
						okLo := true
						if sl.Low != nil {
							lo, okLo = constInt(e, sl.Low)
						}
						okHi := true
						if sl.High != nil {
							hi, okH := constInt(e, sl.High)
							okHi = okH && hi == lo+int64(k)
						}
						if okLo && okHi && lo == putOff {
							if x, ok := w.intExpr(e, c.Args[1]); ok && uintBytes(info.TypeOf(c.Args[1])) == k {
								ops = append(ops, fmt.Sprintf(".num %d %s", k, x))
								putOff += int64(k)
								continue
							}
						}
					}
				}
			}
			return nil, false
		case *ast.ReturnStmt:
			if len(st.Results) == 1 && types.ExprString(st.Results[0]) == "buf.Bytes()" && putBuf == nil {
				continue
			}
			if len(st.Results) == 1 && putBuf != nil && isObj(e, st.Results[0], putBuf) && putOff == putLen {
				continue
			}
			return nil, false
		default:
			return nil, false
		}
	}
	return ops, len(ops) > 0
}

func (w *world) encStmt(e *env, s ast.Stmt, out *encOut) {
	switch st := s.(type) {
	case *ast.DeferStmt:
		if fn, recv := w.callee(e, st.Call); fn != nil && fn.Name() == "Release" && recv != nil && isObj(e, recv, e.writer) {
			return
		}
	case *ast.AssignStmt:
		// b := packet.NewPacketWriter(...)
		if len(st.Lhs) == 1 && len(st.Rhs) == 1 && st.Tok == token.DEFINE {
			if c, ok := st.Rhs[0].(*ast.CallExpr); ok {
				if fn, _ := w.callee(e, c); fullName(fn) == modPath+"/packet.NewPacketWriter" {
					e.writer = e.info.ObjectOf(st.Lhs[0].(*ast.Ident))
					return
				}
			}
			// x := <int expr>   (single-assignment local)
			if id, ok := st.Lhs[0].(*ast.Ident); ok {
				if x, ok := w.intExpr(e, st.Rhs[0]); ok {
					e.locals[e.info.ObjectOf(id)] = x
					return
				}
			}
		}
		// msgID, err := hex.DecodeString(d.MsgID)   (followed by `if err != nil { return nil, err }`, see IfStmt);
		// the form that drops the error (`msgID, _ :=`) is not in the fragment: the model's hexFixed refuses bad hex
		if len(st.Lhs) == 2 && len(st.Rhs) == 1 && st.Tok == token.DEFINE {
			if c, ok := st.Rhs[0].(*ast.CallExpr); ok {
				if fn, _ := w.callee(e, c); fullName(fn) == "encoding/hex.DecodeString" {
					if id2, ok := st.Lhs[1].(*ast.Ident); ok && id2.Name != "_" {
						if k, p, ok := w.strArg(e, c.Args[0]); ok && k == "field" {
							e.bytesL[e.info.ObjectOf(st.Lhs[0].(*ast.Ident))] = "hexdec:" + p
							e.locals[e.info.ObjectOf(id2)] = "HEXERR"
							return
						}
					}
				}
			}
		}
		// p.F = expr  /  p.A, p.B = e1, e2
		if st.Tok == token.ASSIGN && len(st.Lhs) == len(st.Rhs) {
			var as []string
			ok := true
			for i := range st.Lhs {
				p, ok1 := w.fieldPath(e, st.Lhs[i])
				x, ok2 := w.intExpr(e, st.Rhs[i])
				if !ok1 || !ok2 || uintBytes(e.info.TypeOf(st.Lhs[i])) == 0 {
					ok = false
					break
				}
				// the assignment converts to the field's type
				x = fmt.Sprintf("(.conv %d %s)", uintBytes(e.info.TypeOf(st.Lhs[i])), x)
				as = append(as, fmt.Sprintf("(%s, %s)", q(p), x))
			}
			if ok && len(as) == 1 {
				parts := strings.SplitN(as[0][1:len(as[0])-1], ", ", 2)
				out.ops = append(out.ops, fmt.Sprintf(".assign %s %s", parts[0], parts[1]))
				return
			}
			if ok {
				out.ops = append(out.ops, fmt.Sprintf(".assignIf (.eq (.lit 0) (.lit 0)) [%s]", strings.Join(as, ", ")))
				return
			}
		}
	case *ast.IfStmt:
		// if err := writeHexID(b, d.MsgID); err != nil { return nil, err }: a helper that writes or refuses
		if a, ok := st.Init.(*ast.AssignStmt); ok && st.Else == nil && a.Tok == token.DEFINE && len(a.Lhs) == 1 && len(a.Rhs) == 1 && len(st.Body.List) == 1 {
			if c, ok := unparen(a.Rhs[0]).(*ast.CallExpr); ok {
				errObj := e.info.ObjectOf(a.Lhs[0].(*ast.Ident))
				if b, ok := unparen(st.Cond).(*ast.BinaryExpr); ok && b.Op == token.NEQ && isObj(e, b.X, errObj) {
					if nl, ok := unparen(b.Y).(*ast.Ident); ok && nl.Name == "nil" {
						if r, ok := st.Body.List[0].(*ast.ReturnStmt); ok && len(r.Results) == 2 && isObj(e, r.Results[1], errObj) {
							if n0, ok := unparen(r.Results[0]).(*ast.Ident); ok && n0.Name == "nil" {
								if fd, ne, ok := w.bindCall(e, c); ok && ne.writer != nil && fd.Type.Results != nil && len(fd.Type.Results.List) == 1 {
									ne.errOnly = true
									var tmp encOut
									w.encStmts(ne, fd.Body.List, &tmp)
									good := !lostWrites(ne, tmp.ops, true) && tmp.fin == ".errNil"
									for _, o := range tmp.ops {
										if strings.HasPrefix(o, ".unsupported") {
											good = false
										}
									}
									if good {
										out.ops = append(out.ops, tmp.ops...)
										return
									}
								}
							}
						}
					}
				}
			}
		}
		// if err != nil { return nil, err } right after the hex decoding
		if st.Init == nil && st.Else == nil && len(st.Body.List) == 1 {
			if b, ok := unparen(st.Cond).(*ast.BinaryExpr); ok && b.Op == token.NEQ {
				if id, ok := unparen(b.X).(*ast.Ident); ok && e.locals[e.info.ObjectOf(id)] == "HEXERR" {
					if nl, ok := unparen(b.Y).(*ast.Ident); ok && nl.Name == "nil" {
						if r, ok := st.Body.List[0].(*ast.ReturnStmt); ok && len(r.Results) == 2 && isObj(e, r.Results[1], e.info.ObjectOf(id)) {
							if n0, ok := unparen(r.Results[0]).(*ast.Ident); ok && n0.Name == "nil" {
								delete(e.locals, e.info.ObjectOf(id))
								return
							}
						}
						if r, ok := st.Body.List[0].(*ast.ReturnStmt); ok && e.errOnly && len(r.Results) == 1 && isObj(e, r.Results[0], e.info.ObjectOf(id)) {
							delete(e.locals, e.info.ObjectOf(id))
							return
						}
					}
				}
			}
		}
		if st.Init == nil && st.Else == nil {
			if c, ok := w.condExpr(e, st.Cond); ok {
				var as []string
				good := true
				for _, bs := range st.Body.List {
					a, ok := bs.(*ast.AssignStmt)
					if !ok || a.Tok != token.ASSIGN || len(a.Lhs) != len(a.Rhs) {
						good = false
						break
					}
					for i := range a.Lhs {
						p, ok1 := w.fieldPath(e, a.Lhs[i])
						x, ok2 := w.intExpr(e, a.Rhs[i])
						k := uintBytes(e.info.TypeOf(a.Lhs[i]))
						if !ok1 || !ok2 || k == 0 {
							good = false
							break
						}
						as = append(as, fmt.Sprintf("(%s, (.conv %d %s))", q(p), k, x))
					}
					if len(st.Body.List) > 1 {
						good = false // sequential assignments inside one if are not in the closed set
					}
				}
				if good && len(as) > 0 {
					out.ops = append(out.ops, fmt.Sprintf(".assignIf %s [%s]", c, strings.Join(as, ", ")))
					return
				}
			}
		}
	case *ast.ExprStmt:
		if c, ok := st.X.(*ast.CallExpr); ok {
			if w.writerCall(e, c, out, nil, "") {
				return
			}
			// pkg.WriteHeaderNoLength(p.Header, b), writeCommon(b, p) …: any library function that receives the writer is inlined
			if fd, ne, ok := w.bindCall(e, c); ok && ne.writer != nil {
				var tmp encOut
				w.encStmts(ne, fd.Body.List, &tmp)
				if !lostWrites(ne, tmp.ops, true) && tmp.fin == "" {
					out.ops = append(out.ops, tmp.ops...)
					return
				}
			}
		}
	case *ast.RangeStmt:
		// for _, c := range p.counters() { b.WriteUint32(*c) }: a method returning [N]*T{&p.A, &p.B, …}, unrolled
		if ps, ok := w.ptrList(e, st.X); ok && st.Value != nil && st.Tok == token.DEFINE {
			if key, ok := st.Key.(*ast.Ident); ok && key.Name == "_" {
				var tmp encOut
				for _, fp := range ps {
					ne := e.clone()
					ne.paths[e.info.ObjectOf(st.Value.(*ast.Ident))] = fp
					w.encStmts(ne, st.Body.List, &tmp)
				}
				out.ops = append(out.ops, tmp.ops...)
				return
			}
		}
		// for _, part := range h.Sequence { buf.WriteUint32(part) } over a fixed-size array: unrolled
		if n, elemT, isArr := arrayLen(e.info.TypeOf(st.X)); isArr && st.Value != nil && len(st.Body.List) == 1 {
			if key, ok := st.Key.(*ast.Ident); ok && key.Name == "_" {
				if lp, ok := w.fieldPath(e, st.X); ok {
					if es, ok := st.Body.List[0].(*ast.ExprStmt); ok {
						if c, ok := es.X.(*ast.CallExpr); ok && len(c.Args) == 1 && isObj(e, c.Args[0], e.info.ObjectOf(st.Value.(*ast.Ident))) {
							if fn, recv := w.callee(e, c); fn != nil && recv != nil && isObj(e, recv, e.writer) {
								k := map[string]int{"WriteUint8": 1, "WriteUint16": 2, "WriteUint32": 4, "WriteUint64": 8}[fn.Name()]
								if k > 0 && uintBytes(elemT) == k {
									for i := int64(0); i < n; i++ {
										out.ops = append(out.ops, fmt.Sprintf(".num %d (.fld %s)", k, q(fmt.Sprintf("%s.%d", lp, i))))
									}
									return
								}
							}
						}
					}
				}
			}
		}
		// for _, x := range p.F[:p.Count] { b.WriteFixedLenString(x, n) }: the first Count elements, as the indexed loop
		if id, ok := st.Key.(*ast.Ident); ok && id.Name == "_" && st.Value != nil && len(st.Body.List) == 1 {
			if sl, ok := unparen(st.X).(*ast.SliceExpr); ok && sl.Low == nil && sl.High != nil && sl.Max == nil {
				if lp, ok := w.fieldPath(e, sl.X); ok {
					if cnt, ok := w.intExpr(e, sl.High); ok {
						if es, ok := st.Body.List[0].(*ast.ExprStmt); ok {
							if c, ok := es.X.(*ast.CallExpr); ok {
								var tmp encOut
								ev := e.info.ObjectOf(st.Value.(*ast.Ident))
								if w.writerCall(e, c, &tmp, ev, lp) && len(tmp.ops) == 1 && strings.HasPrefix(tmp.ops[0], "ELEM ") {
									f := strings.Fields(tmp.ops[0])
									out.ops = append(out.ops, fmt.Sprintf(".repCount %s %s %s", q(f[1]), cnt, f[2]))
									return
								}
							}
						}
					}
				}
			}
		}
		// for i := range p.F { b.WriteFixedLenString(p.F[i], n) }
		if id, ok := st.Key.(*ast.Ident); ok && id.Name != "_" && st.Value == nil && st.Tok == token.DEFINE && len(st.Body.List) == 1 {
			if lp, ok := w.fieldPath(e, st.X); ok {
				if es, ok := st.Body.List[0].(*ast.ExprStmt); ok {
					if c, ok := es.X.(*ast.CallExpr); ok {
						ne := e.clone()
						ne.loopIx = e.info.ObjectOf(id)
						var tmp encOut
						if w.writerCall(ne, c, &tmp, nil, "") && len(tmp.ops) == 1 && strings.HasPrefix(tmp.ops[0], "ELEM ") {
							f := strings.Fields(tmp.ops[0])
							if f[1] == lp {
								out.ops = append(out.ops, fmt.Sprintf(".repRange %s %s", q(f[1]), f[2]))
								return
							}
						}
					}
				}
			}
		}
		// for _, x := range p.F { b.WriteFixedLenString(x, n) }
		if id, ok := st.Key.(*ast.Ident); ok && id.Name == "_" && st.Value != nil && len(st.Body.List) == 1 {
			if lp, ok := w.fieldPath(e, st.X); ok {
				if es, ok := st.Body.List[0].(*ast.ExprStmt); ok {
					if c, ok := es.X.(*ast.CallExpr); ok {
						var tmp encOut
						ev := e.info.ObjectOf(st.Value.(*ast.Ident))
						if w.writerCall(e, c, &tmp, ev, lp) && len(tmp.ops) == 1 && strings.HasPrefix(tmp.ops[0], "ELEM ") {
							f := strings.Fields(tmp.ops[0])
							out.ops = append(out.ops, fmt.Sprintf(".repRange %s %s", q(f[1]), f[2]))
							return
						}
					}
				}
			}
		}
	case *ast.ForStmt:
		// for i := 0; i < int(cnt); i++ { b.WriteFixedLenString(p.F[i], n) }
		if ix, cnt, ok := w.countedLoop(e, st); ok && len(st.Body.List) == 1 {
			if es, ok := st.Body.List[0].(*ast.ExprStmt); ok {
				if c, ok := es.X.(*ast.CallExpr); ok {
					ne := e.clone()
					ne.loopIx = ix
					var tmp encOut
					if w.writerCall(ne, c, &tmp, nil, "") && len(tmp.ops) == 1 && strings.HasPrefix(tmp.ops[0], "ELEM ") {
						f := strings.Fields(tmp.ops[0])
						out.ops = append(out.ops, fmt.Sprintf(".repCount %s %s %s", q(f[1]), cnt, f[2]))
						return
					}
				}
			}
		}
	case *ast.ReturnStmt:
		if e.errOnly && len(st.Results) == 1 {
			if id, ok := unparen(st.Results[0]).(*ast.Ident); ok && id.Name == "nil" {
				out.fin = ".errNil"
				return
			}
		}
		if len(st.Results) == 1 {
			if c, ok := st.Results[0].(*ast.CallExpr); ok {
				if fn, recv := w.callee(e, c); fn != nil && recv != nil && isObj(e, recv, e.writer) {
					switch fn.Name() {
					case "Bytes":
						out.fin = ".plain"
						return
					case "BytesWithLength":
						out.fin = ".withLength"
						return
					}
				}
				// return encodeHeaderOnly(p.Header): a helper that builds the whole image (before any writer exists here)
				if e.writer == nil {
					if fd, ne, ok := w.bindCall(e, c); ok {
						w.encStmts(ne, fd.Body.List, out)
						return
					}
				}
			}
		}
	}
	out.ops = append(out.ops, w.unsup(s))
}

// countedLoop matches `for i := 0; i < int(<expr>); i++`.
func (w *world) countedLoop(e *env, st *ast.ForStmt) (types.Object, string, bool) {
	init, ok := st.Init.(*ast.AssignStmt)
	if !ok || init.Tok != token.DEFINE || len(init.Lhs) != 1 || len(init.Rhs) != 1 {
		return nil, "", false
	}
	if n, ok := constInt(e, init.Rhs[0]); !ok || n != 0 {
		return nil, "", false
	}
	ix := e.info.ObjectOf(init.Lhs[0].(*ast.Ident))
	cond, ok := st.Cond.(*ast.BinaryExpr)
	if !ok || cond.Op != token.LSS || !isObj(e, cond.X, ix) {
		return nil, "", false
	}
	post, ok := st.Post.(*ast.IncDecStmt)
	if !ok || post.Tok != token.INC || !isObj(e, post.X, ix) {
		return nil, "", false
	}
	cnt, ok := w.intExpr(e, cond.Y)
	if !ok {
		return nil, "", false
	}
	return ix, cnt, true
}

// ---------------------------------------------------------------------------------------------
// IDecode

type decOut struct {
	ops []string
	ret string
	// `if b.Error() != nil { return b.Error() }` has been seen: a following `return parseErr` is the same
	// decision as lo.Ternary(b.Error() != nil, b.Error(), parseErr)
	readerErrReturned bool
}

// readCall translates a reader primitive call to (kind, arg) where kind ∈ num/cstr/fixedTrim/fixedRaw/nbytes.
func (w *world) readCall(e *env, x ast.Expr) (kind string, k int, arg string, ok bool) {
	c, isCall := unparen(x).(*ast.CallExpr)
	if !isCall {
		return
	}
	fn, recv := w.callee(e, c)
	if fn == nil || recv == nil || !isObj(e, recv, e.reader) {
		return
	}
	switch fn.Name() {
	case "ReadUint8":
		return "num", 1, "", true
	case "ReadUint16":
		return "num", 2, "", true
	case "ReadUint32":
		return "num", 4, "", true
	case "ReadUint64":
		return "num", 8, "", true
	case "ReadCString":
		return "cstr", 0, "", true
	case "ReadCStringN", "ReadCStringNWithoutTrim":
		if n, isC := constInt(e, c.Args[0]); isC {
			if fn.Name() == "ReadCStringN" {
				return "fixedTrim", 0, fmt.Sprint(n), true
			}
			return "fixedRaw", 0, fmt.Sprint(n), true
		}
	case "ReadNBytes":
		if a, okA := w.intExpr(e, c.Args[0]); okA {
			return "nbytes", 0, a, true
		}
	}
	return
}

// assignRead translates `<path> = <rhs>` where rhs reads from the reader.
func (w *world) assignRead(e *env, path string, lhsT types.Type, rhs ast.Expr) (string, bool) {
	rhs = w.deref(e, rhs)
	// d.MsgID = readHexMsgID(b): a library function of the reader whose body is `x := <read>; …; return <expr>`
	if c, ok := rhs.(*ast.CallExpr); ok && e.reader != nil {
		if fd, ne, ok := w.bindCall(e, c); ok && ne.reader != nil && len(fd.Body.List) >= 1 && fd.Type.Results != nil && len(fd.Type.Results.List) == 1 {
			ne.alias = map[types.Object]ast.Expr{}
			good := true
			for _, bs := range fd.Body.List[:len(fd.Body.List)-1] {
				a, ok := bs.(*ast.AssignStmt)
				if !ok || a.Tok != token.DEFINE || len(a.Lhs) != 1 || len(a.Rhs) != 1 {
					good = false
					break
				}
				ne.alias[ne.info.ObjectOf(a.Lhs[0].(*ast.Ident))] = a.Rhs[0]
			}
			if r, ok := fd.Body.List[len(fd.Body.List)-1].(*ast.ReturnStmt); ok && good && len(r.Results) == 1 {
				// every alias must be used exactly once in what follows (one read on the wire per definition)
				uses := map[types.Object]int{}
				count := func(n ast.Node) {
					ast.Inspect(n, func(m ast.Node) bool {
						if id, ok := m.(*ast.Ident); ok {
							if o := ne.info.Uses[id]; o != nil {
								if _, isA := ne.alias[o]; isA {
									uses[o]++
								}
							}
						}
						return true
					})
				}
				count(r.Results[0])
				for _, ax := range ne.alias {
					count(ax)
				}
				for o := range ne.alias {
					if uses[o] != 1 {
						good = false
					}
				}
				if good {
					return w.assignRead(ne, path, lhsT, r.Results[0])
				}
			}
		}
	}
	// numeric, possibly through a conversion T(b.ReadUintK())
	inner := rhs
	if c, ok := rhs.(*ast.CallExpr); ok && len(c.Args) == 1 {
		if tv, ok := e.info.Types[c.Fun]; ok && tv.IsType() {
			inner = w.deref(e, c.Args[0])
			// string(b.ReadNBytes(..)) / CommandID(b.ReadUint32())
			if kind, k, arg, ok := w.readCall(e, inner); ok {
				switch kind {
				case "num":
					if uintBytes(tv.Type) >= k && uintBytes(lhsT) >= k {
						return fmt.Sprintf(".num %d %s", k, q(path)), true
					}
				case "nbytes":
					return fmt.Sprintf(".bytesN %s %s", q(path), arg), true
				}
			}
			return "", false
		}
		// hex.EncodeToString([]byte(b.ReadCStringNWithoutTrim(n)))
		if fn, _ := w.callee(e, c); fullName(fn) == "encoding/hex.EncodeToString" {
			a := w.deref(e, c.Args[0])
			if cc, ok := a.(*ast.CallExpr); ok && len(cc.Args) == 1 {
				if tv, ok := e.info.Types[cc.Fun]; ok && tv.IsType() {
					if kind, _, arg, ok := w.readCall(e, w.deref(e, cc.Args[0])); ok && kind == "fixedRaw" {
						return fmt.Sprintf(".fixedRawHex %s %s", q(path), arg), true
					}
				}
			}
			return "", false
		}
	}
	if kind, k, arg, ok := w.readCall(e, rhs); ok {
		switch kind {
		case "num":
			if uintBytes(lhsT) >= k {
				return fmt.Sprintf(".num %d %s", k, q(path)), true
			}
		case "cstr":
			return fmt.Sprintf(".cstr %s", q(path)), true
		case "fixedTrim":
			return fmt.Sprintf(".fixedTrim %s %s", q(path), arg), true
		case "fixedRaw":
			return fmt.Sprintf(".fixedRaw %s %s", q(path), arg), true
		case "nbytes":
			return fmt.Sprintf(".bytesN %s %s", q(path), arg), true
		}
	}
	return "", false
}

// isReaderCall: `<reader>.<name>()`
func (w *world) isReaderCall(e *env, x ast.Expr, name string) bool {
	c, ok := unparen(x).(*ast.CallExpr)
	if !ok || len(c.Args) != 0 || e.reader == nil {
		return false
	}
	fn, recv := w.callee(e, c)
	return fn != nil && fn.Name() == name && recv != nil && isObj(e, recv, e.reader)
}

func (w *world) isParseErr(e *env, x ast.Expr) bool {
	id, ok := unparen(x).(*ast.Ident)
	return ok && e.locals[e.info.ObjectOf(id)] == "PARSEERR"
}

// isReaderErrNotNil: `<reader>.Error() != nil`
func (w *world) isReaderErrNotNil(e *env, x ast.Expr) bool {
	b, ok := unparen(x).(*ast.BinaryExpr)
	if !ok || b.Op != token.NEQ {
		return false
	}
	id, ok := unparen(b.Y).(*ast.Ident)
	return ok && id.Name == "nil" && w.isReaderCall(e, b.X, "Error")
}

// isReaderOrParse: lo.Ternary(b.Error() != nil, b.Error(), parseErr)
func (w *world) isReaderOrParse(e *env, c *ast.CallExpr) bool {
	fn, _ := w.callee(e, c)
	return fn != nil && fn.Name() == "Ternary" && fn.Pkg() != nil && fn.Pkg().Path() == "github.com/samber/lo" && len(c.Args) == 3 &&
		w.isReaderErrNotNil(e, c.Args[0]) && w.isReaderCall(e, c.Args[1], "Error") && w.isParseErr(e, c.Args[2])
}

// resultCall inlines `L1, …, Ln = helper(<reader>, args…)`: a library function that reads from the reader into
// result variables and returns them.  Each returned variable is bound to the field it is assigned to in the
// caller, so the helper's statements translate as if they assigned the fields directly (they cannot observe the
// PDU otherwise: only what is passed in is bound).
func (w *world) resultCall(e *env, lhs []ast.Expr, c *ast.CallExpr, out *decOut) bool {
	var paths []string
	var ltypes []types.Type
	for _, l := range lhs {
		p, ok := w.fieldPath(e, l)
		if !ok {
			return false
		}
		paths = append(paths, p)
		ltypes = append(ltypes, e.info.TypeOf(l))
	}
	return w.resultCallP(e, paths, ltypes, c, out)
}

func (w *world) resultCallP(e *env, paths []string, ltypes []types.Type, c *ast.CallExpr, out *decOut) bool {
	if e.reader == nil {
		return false
	}
	fd, ne, ok := w.bindCall(e, c)
	if !ok || ne.reader == nil || len(fd.Body.List) == 0 || fd.Type.Results == nil {
		return false
	}
	var named []types.Object
	nres := 0
	for _, rf := range fd.Type.Results.List {
		if len(rf.Names) == 0 {
			nres++
		}
		for _, nm := range rf.Names {
			nres++
			named = append(named, ne.info.ObjectOf(nm))
		}
	}
	ret, ok := fd.Body.List[len(fd.Body.List)-1].(*ast.ReturnStmt)
	if !ok || nres != len(paths) {
		return false
	}
	var objs []types.Object
	switch {
	case len(ret.Results) == 0 && len(named) == nres:
		objs = named
	case len(ret.Results) == nres:
		for _, r := range ret.Results {
			id, ok := unparen(r).(*ast.Ident)
			if !ok {
				return false
			}
			if _, isVar := ne.info.ObjectOf(id).(*types.Var); !isVar {
				return false
			}
			objs = append(objs, ne.info.ObjectOf(id))
		}
	default:
		return false
	}
	seen := map[types.Object]bool{}
	for i, o := range objs {
		if o == nil || seen[o] {
			return false
		}
		seen[o] = true
		if p, bound := ne.paths[o]; bound && p != paths[i] {
			return false // a parameter that stands for another field is returned into this one
		}
		if _, isInt := ne.locals[o]; isInt {
			return false
		}
		if !types.Identical(o.Type(), ltypes[i]) {
			return false
		}
		ne.paths[o] = paths[i]
	}
	var tmp decOut
	w.decStmts(ne, fd.Body.List[:len(fd.Body.List)-1], &tmp)
	if tmp.ret != "" || tmp.readerErrReturned || len(tmp.ops) == 0 || lostWrites(ne, tmp.ops, false) {
		return false
	}
	for _, o := range tmp.ops {
		if strings.HasPrefix(o, ".unsupported") || strings.HasPrefix(o, ".guard") || strings.HasPrefix(o, ".stopIfAbsent") {
			return false
		}
	}
	for _, p := range paths {
		for o, x := range e.locals {
			if strings.Contains(x, "(.fld "+q(p)+")") || strings.Contains(x, "(.lenOf "+q(p)+")") {
				delete(e.locals, o)
			}
		}
	}
	out.ops = append(out.ops, tmp.ops...)
	return true
}

// wholeDecodeCall: `p.A, p.B, …, err = decodeBody(data)` before any reader exists here: a library function that makes
// its own reader over the input, reads into result variables and returns them together with the reader's verdict
// (`return a, b, …, r.Error()`).  The result variables are bound to the fields; `err` then stands for the reader's error.
func (w *world) wholeDecodeCall(e *env, lhs []ast.Expr, c *ast.CallExpr, out *decOut) bool {
	if e.reader != nil || len(lhs) < 2 {
		return false
	}
	errID, ok := unparen(lhs[len(lhs)-1]).(*ast.Ident)
	if !ok || !types.Identical(e.info.TypeOf(errID), types.Universe.Lookup("error").Type()) {
		return false
	}
	var paths []string
	var ltypes []types.Type
	for _, l := range lhs[:len(lhs)-1] {
		p, ok := w.fieldPath(e, l)
		if !ok {
			return false
		}
		paths = append(paths, p)
		ltypes = append(ltypes, e.info.TypeOf(l))
	}
	fd, ne, ok := w.bindCall(e, c)
	if !ok || ne.reader != nil || len(fd.Body.List) < 2 || fd.Type.Results == nil {
		return false
	}
	ret, ok := fd.Body.List[len(fd.Body.List)-1].(*ast.ReturnStmt)
	if !ok || len(ret.Results) != len(lhs) {
		return false
	}
	seen := map[types.Object]bool{}
	for i, r := range ret.Results[:len(ret.Results)-1] {
		id, ok := unparen(r).(*ast.Ident)
		if !ok {
			return false
		}
		o, isVar := ne.info.ObjectOf(id).(*types.Var)
		if !isVar || seen[o] || !types.Identical(o.Type(), ltypes[i]) {
			return false
		}
		if _, bound := ne.paths[o]; bound {
			return false
		}
		seen[o] = true
		ne.paths[o] = paths[i]
	}
	var tmp decOut
	w.decStmts(ne, fd.Body.List[:len(fd.Body.List)-1], &tmp)
	if ne.reader == nil || tmp.ret != "" || tmp.readerErrReturned || lostWrites(ne, tmp.ops, false) {
		return false
	}
	if !w.isReaderCall(ne, ret.Results[len(ret.Results)-1], "Error") {
		return false
	}
	for _, o := range tmp.ops {
		if strings.HasPrefix(o, ".unsupported") {
			return false
		}
	}
	out.ops = append(out.ops, tmp.ops...)
	e.locals[e.info.ObjectOf(errID)] = "READERERR"
	return true
}

// boundDefine: `x := …` where x is a result variable already bound to a field (see resultCall)
func (w *world) boundDefine(e *env, st *ast.AssignStmt) bool {
	if st.Tok != token.DEFINE || len(st.Lhs) != 1 {
		return false
	}
	id, ok := st.Lhs[0].(*ast.Ident)
	if !ok {
		return false
	}
	_, bound := e.paths[e.info.ObjectOf(id)]
	return bound
}

func (w *world) decStmts(e *env, stmts []ast.Stmt, out *decOut) {
	for i := 0; i < len(stmts); i++ {
		s := stmts[i]
		// p.F = make([]string, cnt) followed by the counted index loop
		if as, ok := s.(*ast.AssignStmt); ok && (as.Tok == token.ASSIGN || w.boundDefine(e, as)) && len(as.Lhs) == 1 && len(as.Rhs) == 1 && i+1 < len(stmts) {
			if c, ok := as.Rhs[0].(*ast.CallExpr); ok {
				if id, ok := c.Fun.(*ast.Ident); ok && id.Name == "make" && len(c.Args) == 2 {
					if lp, ok := w.fieldPath(e, as.Lhs[0]); ok {
						if cnt, ok := w.intExpr(e, c.Args[1]); ok {
							// for i := range p.F { p.F[i] = b.ReadCStringN(n) } over the slice just made
							if rs, ok := stmts[i+1].(*ast.RangeStmt); ok && rs.Tok == token.DEFINE && rs.Value == nil && rs.Key != nil && len(rs.Body.List) == 1 {
								if rp, ok := w.fieldPath(e, rs.X); ok && rp == lp {
									ix := e.info.ObjectOf(rs.Key.(*ast.Ident))
									if ba, ok := rs.Body.List[0].(*ast.AssignStmt); ok && ba.Tok == token.ASSIGN && len(ba.Lhs) == 1 {
										if ie, ok := ba.Lhs[0].(*ast.IndexExpr); ok && isObj(e, ie.Index, ix) {
											if lp2, ok := w.fieldPath(e, ie.X); ok && lp2 == lp {
												if kind, _, arg, ok := w.readCall(e, ba.Rhs[0]); ok && kind == "fixedTrim" {
													out.ops = append(out.ops, fmt.Sprintf(".repMake %s %s %s", q(lp), cnt, arg))
													i++
													continue
												}
											}
										}
									}
								}
							}
							if fs, ok := stmts[i+1].(*ast.ForStmt); ok {
								if ix, cnt2, ok := w.countedLoop(e, fs); ok && cnt2 == cnt && len(fs.Body.List) == 1 {
									if ba, ok := fs.Body.List[0].(*ast.AssignStmt); ok && ba.Tok == token.ASSIGN && len(ba.Lhs) == 1 {
										if ie, ok := ba.Lhs[0].(*ast.IndexExpr); ok && isObj(e, ie.Index, ix) {
											if lp2, ok := w.fieldPath(e, ie.X); ok && lp2 == lp {
												if kind, _, arg, ok := w.readCall(e, ba.Rhs[0]); ok && kind == "fixedTrim" {
													out.ops = append(out.ops, fmt.Sprintf(".repMake %s %s %s", q(lp), cnt, arg))
													i++
													continue
												}
											}
										}
									}
								}
							}
						}
					}
				}
			}
		}
		w.decStmt(e, s, out)
	}
}

func (w *world) decStmt(e *env, s ast.Stmt, out *decOut) {
	switch st := s.(type) {
	case *ast.DeferStmt:
		if fn, recv := w.callee(e, st.Call); fn != nil && fn.Name() == "Release" && recv != nil && isObj(e, recv, e.reader) {
			return
		}
	case *ast.IfStmt:
		// if p.Header.Status != 0 && b.Error() == nil && b.Remaining() == 0 { return nil }: a body that is absent on error
		if st.Init == nil && st.Else == nil && len(st.Body.List) == 1 && e.reader != nil {
			if r, ok := st.Body.List[0].(*ast.ReturnStmt); ok && len(r.Results) == 1 {
				if id, ok := unparen(r.Results[0]).(*ast.Ident); ok && id.Name == "nil" {
					var conj []ast.Expr
					var flat func(x ast.Expr)
					flat = func(x ast.Expr) {
						if b, ok := unparen(x).(*ast.BinaryExpr); ok && b.Op == token.LAND {
							flat(b.X)
							flat(b.Y)
							return
						}
						conj = append(conj, unparen(x))
					}
					ce := e // the environment the condition is read in
					cond := st.Cond
					if cc, ok := unparen(cond).(*ast.CallExpr); ok {
						// if bodyOmitted(p.Header, b) { return nil }: the condition moved into a helper that returns it
						if fd, ne, ok := w.bindCall(e, cc); ok && ne.reader != nil && len(fd.Body.List) == 1 {
							if hr, ok := fd.Body.List[0].(*ast.ReturnStmt); ok && len(hr.Results) == 1 {
								ce, cond = ne, hr.Results[0]
							}
						}
					}
					flat(cond)
					field, noErr, atEnd, other := "", false, false, false
					for _, c := range conj {
						b, ok := c.(*ast.BinaryExpr)
						if !ok {
							other = true
							continue
						}
						zero := func(x ast.Expr) bool { n, ok := constInt(ce, x); return ok && n == 0 }
						isNil := func(x ast.Expr) bool { id, ok := unparen(x).(*ast.Ident); return ok && id.Name == "nil" }
						switch {
						case b.Op == token.NEQ && zero(b.Y):
							if p, ok := w.fieldPath(ce, b.X); ok && uintBytes(ce.info.TypeOf(b.X)) > 0 && field == "" {
								field = p
							} else {
								other = true
							}
						case b.Op == token.EQL && isNil(b.Y) && w.isReaderCall(ce, b.X, "Error"):
							noErr = true
						case b.Op == token.EQL && zero(b.Y) && w.isReaderCall(ce, b.X, "Remaining"):
							atEnd = true
						default:
							other = true
						}
					}
					if field != "" && noErr && atEnd && !other && len(conj) == 3 {
						out.ops = append(out.ops, fmt.Sprintf(".stopIfAbsent %s", q(field)))
						return
					}
				}
			}
		}
		// if b.Error() != nil { return b.Error() }   |   if err := b.Error(); err != nil { return err }
		if st.Else == nil && len(st.Body.List) == 1 && e.reader != nil {
			if r, ok := st.Body.List[0].(*ast.ReturnStmt); ok && len(r.Results) == 1 {
				if st.Init == nil && w.isReaderErrNotNil(e, st.Cond) && w.isReaderCall(e, r.Results[0], "Error") {
					out.readerErrReturned = true
					return
				}
				if a, ok := st.Init.(*ast.AssignStmt); ok && a.Tok == token.DEFINE && len(a.Lhs) == 1 && len(a.Rhs) == 1 && w.isReaderCall(e, a.Rhs[0], "Error") {
					errObj := e.info.ObjectOf(a.Lhs[0].(*ast.Ident))
					if b, ok := unparen(st.Cond).(*ast.BinaryExpr); ok && b.Op == token.NEQ && isObj(e, b.X, errObj) && isObj(e, r.Results[0], errObj) {
						if id, ok := unparen(b.Y).(*ast.Ident); ok && id.Name == "nil" {
							out.readerErrReturned = true
							return
						}
					}
				}
			}
		}
		// if len(data) < N { return <err> }
		if st.Init == nil && st.Else == nil && len(st.Body.List) == 1 {
			if b, ok := st.Cond.(*ast.BinaryExpr); ok && b.Op == token.LSS {
				if c, ok := b.X.(*ast.CallExpr); ok {
					if id, ok := c.Fun.(*ast.Ident); ok && id.Name == "len" {
						if _, isParam := e.info.ObjectOf(unparen(c.Args[0]).(*ast.Ident)).(*types.Var); isParam && e.reader == nil {
							if n, ok := constInt(e, b.Y); ok {
								if r, ok := st.Body.List[0].(*ast.ReturnStmt); ok && len(r.Results) == 1 {
									if id, ok := unparen(r.Results[0]).(*ast.Ident); !ok || id.Name != "nil" {
										out.ops = append(out.ops, fmt.Sprintf(".guard %d", n))
										return
									}
								}
							}
						}
					}
				}
			}
		}
	case *ast.DeclStmt:
		// var parseErr error
		if gd, ok := st.Decl.(*ast.GenDecl); ok && gd.Tok == token.VAR && len(gd.Specs) == 1 {
			if vs, ok := gd.Specs[0].(*ast.ValueSpec); ok && len(vs.Values) == 0 && len(vs.Names) == 1 && vs.Type != nil && types.ExprString(vs.Type) == "error" {
				e.locals[e.info.ObjectOf(vs.Names[0])] = "PARSEERR"
				return
			}
		}
	case *ast.AssignStmt:
		if len(st.Lhs) == 1 && len(st.Rhs) == 1 && st.Tok == token.DEFINE && !w.boundDefine(e, st) {
			if c, ok := st.Rhs[0].(*ast.CallExpr); ok {
				if fn, _ := w.callee(e, c); fullName(fn) == modPath+"/packet.NewPacketReader" {
					e.reader = e.info.ObjectOf(st.Lhs[0].(*ast.Ident))
					return
				}
				// decodeErr := lo.Ternary(b.Error() != nil, b.Error(), parseErr)
				if w.isReaderOrParse(e, c) {
					e.locals[e.info.ObjectOf(st.Lhs[0].(*ast.Ident))] = "TERNARY"
					return
				}
			}
		}
		// n := int(p.Count): an integer local; it stays valid until the field it was computed from is assigned again
		if len(st.Lhs) == 1 && len(st.Rhs) == 1 && st.Tok == token.DEFINE && e.reader != nil && !w.boundDefine(e, st) {
			if id, ok := st.Lhs[0].(*ast.Ident); ok {
				if x, ok := w.intExpr(e, st.Rhs[0]); ok {
					e.locals[e.info.ObjectOf(id)] = x
					return
				}
			}
		}
		if len(st.Lhs) == 1 && len(st.Rhs) == 1 && (st.Tok == token.ASSIGN || w.boundDefine(e, st)) {
			if p, ok := w.fieldPath(e, st.Lhs[0]); ok {
				for o, x := range e.locals {
					if strings.Contains(x, "(.fld "+q(p)+")") || strings.Contains(x, "(.lenOf "+q(p)+")") {
						delete(e.locals, o)
					}
				}
				lt := e.info.TypeOf(st.Lhs[0])
				// p.Header = pkg.ReadHeader(b)
				if c, ok := st.Rhs[0].(*ast.CallExpr); ok {
					fn, recv := w.callee(e, c)
					if fn != nil && recv == nil && fn.Pkg() != nil && strings.HasPrefix(fn.Pkg().Path(), modPath) && len(c.Args) == 1 && isObj(e, c.Args[0], e.reader) &&
						fullName(fn) != modPath+"/smpp.ReadTLVs1" && fullName(fn) != modPath+"/smgp.ReadOptions" {
						if ops, ok := w.inlineReadHeader(fn, p); ok {
							out.ops = append(out.ops, ops...)
							return
						}
					}
					switch fullName(fn) {
					case modPath + "/smpp.ReadTLVs1", modPath + "/smgp.ReadOptions":
						if len(c.Args) == 1 && isObj(e, c.Args[0], e.reader) {
							out.ops = append(out.ops, fmt.Sprintf(".tlvsRead %s", q(p)))
							return
						}
					}
				}
				// h.Sequence = [3]uint32{r.ReadUint32(), …}
				if cl, ok := st.Rhs[0].(*ast.CompositeLit); ok {
					if _, isArr := lt.Underlying().(*types.Array); isArr {
						var ops []string
						good := true
						for i, el := range cl.Elts {
							kind, k, _, ok := w.readCall(e, el)
							if !ok || kind != "num" {
								good = false
								break
							}
							ops = append(ops, fmt.Sprintf(".num %d %s", k, q(fmt.Sprintf("%s.%d", p, i))))
						}
						if good {
							out.ops = append(out.ops, ops...)
							return
						}
					}
				}
				if op, ok := w.assignRead(e, p, lt, st.Rhs[0]); ok {
					out.ops = append(out.ops, op)
					return
				}
				// p.F = readList(b, p.Count): a helper that fills and returns what is assigned here
				if c, ok := st.Rhs[0].(*ast.CallExpr); ok && st.Tok == token.ASSIGN && w.resultCall(e, st.Lhs, c, out) {
					return
				}
			}
		}
		// p.A, p.B = readGroup(b)
		if len(st.Lhs) >= 2 && len(st.Rhs) == 1 && st.Tok == token.ASSIGN {
			if c, ok := st.Rhs[0].(*ast.CallExpr); ok && w.resultCall(e, st.Lhs, c, out) {
				return
			}
			// p.A, p.B, err = decodeBody(data)
			if c, ok := st.Rhs[0].(*ast.CallExpr); ok && w.wholeDecodeCall(e, st.Lhs, c, out) {
				return
			}
		}
		// s.Options, parseErr = smgp.ParseOptions(b.Bytes())
		if len(st.Lhs) == 2 && len(st.Rhs) == 1 && st.Tok == token.ASSIGN {
			if c, ok := st.Rhs[0].(*ast.CallExpr); ok {
				if fn, _ := w.callee(e, c); fullName(fn) == modPath+"/smgp.ParseOptions" && len(c.Args) == 1 {
					if p, ok := w.fieldPath(e, st.Lhs[0]); ok && w.isParseErr(e, st.Lhs[1]) && w.isReaderCall(e, c.Args[0], "Bytes") {
						out.ops = append(out.ops, fmt.Sprintf(".optsParse %s", q(p)))
						return
					}
				}
			}
		}
	case *ast.RangeStmt:
		// for _, c := range p.counters() { *c = b.ReadUint32() }
		if ps, ok := w.ptrList(e, st.X); ok && st.Value != nil && st.Tok == token.DEFINE {
			if key, ok := st.Key.(*ast.Ident); ok && key.Name == "_" {
				var tmp decOut
				for _, fp := range ps {
					ne := e.clone()
					ne.paths[e.info.ObjectOf(st.Value.(*ast.Ident))] = fp
					w.decStmts(ne, st.Body.List, &tmp)
				}
				if tmp.ret == "" && !tmp.readerErrReturned {
					out.ops = append(out.ops, tmp.ops...)
					return
				}
			}
		}
		// for i := range h.Sequence { h.Sequence[i] = r.ReadUint32() } over a fixed-size array: unrolled
		if n, elemT, isArr := arrayLen(e.info.TypeOf(st.X)); isArr && st.Value == nil && st.Key != nil && st.Tok == token.DEFINE && len(st.Body.List) == 1 {
			if lp, ok := w.fieldPath(e, st.X); ok {
				ix := e.info.ObjectOf(st.Key.(*ast.Ident))
				if ba, ok := st.Body.List[0].(*ast.AssignStmt); ok && ba.Tok == token.ASSIGN && len(ba.Lhs) == 1 && len(ba.Rhs) == 1 {
					if ie, ok := ba.Lhs[0].(*ast.IndexExpr); ok && isObj(e, ie.Index, ix) {
						if lp2, ok := w.fieldPath(e, ie.X); ok && lp2 == lp {
							if kind, k, _, ok := w.readCall(e, ba.Rhs[0]); ok && kind == "num" && uintBytes(elemT) == k {
								for i := int64(0); i < n; i++ {
									out.ops = append(out.ops, fmt.Sprintf(".num %d %s", k, q(fmt.Sprintf("%s.%d", lp, i))))
								}
								return
							}
						}
					}
				}
			}
		}
	case *ast.ForStmt:
		// for i<cnt { p.F = append(p.F, b.ReadCStringN(n)) }
		if _, cnt, ok := w.countedLoop(e, st); ok && len(st.Body.List) == 1 {
			if a2, ok := st.Body.List[0].(*ast.AssignStmt); ok && a2.Tok == token.ASSIGN && len(a2.Lhs) == 1 && len(a2.Rhs) == 1 {
				if lp, ok := w.fieldPath(e, a2.Lhs[0]); ok {
					if c, ok := a2.Rhs[0].(*ast.CallExpr); ok && len(c.Args) == 2 {
						if id, ok := c.Fun.(*ast.Ident); ok && id.Name == "append" {
							if lp2, ok := w.fieldPath(e, c.Args[0]); ok && lp2 == lp {
								if kind, _, arg, ok := w.readCall(e, c.Args[1]); ok && kind == "fixedTrim" {
									out.ops = append(out.ops, fmt.Sprintf(".repAppend %s %s %s", q(lp), cnt, arg))
									return
								}
							}
						}
					}
				}
			}
		}
		// for i<cnt { tmp := b.ReadCStringN(n); p.F = append(p.F, tmp) }
		if _, cnt, ok := w.countedLoop(e, st); ok && len(st.Body.List) == 2 {
			if a1, ok := st.Body.List[0].(*ast.AssignStmt); ok && a1.Tok == token.DEFINE && len(a1.Lhs) == 1 {
				if kind, _, arg, ok := w.readCall(e, a1.Rhs[0]); ok && kind == "fixedTrim" {
					tmp := e.info.ObjectOf(a1.Lhs[0].(*ast.Ident))
					if a2, ok := st.Body.List[1].(*ast.AssignStmt); ok && a2.Tok == token.ASSIGN && len(a2.Lhs) == 1 {
						if lp, ok := w.fieldPath(e, a2.Lhs[0]); ok {
							if c, ok := a2.Rhs[0].(*ast.CallExpr); ok && len(c.Args) == 2 {
								if id, ok := c.Fun.(*ast.Ident); ok && id.Name == "append" {
									if lp2, ok := w.fieldPath(e, c.Args[0]); ok && lp2 == lp && isObj(e, c.Args[1], tmp) {
										out.ops = append(out.ops, fmt.Sprintf(".repAppend %s %s %s", q(lp), cnt, arg))
										return
									}
								}
							}
						}
					}
				}
			}
		}
	case *ast.ReturnStmt:
		if len(st.Results) == 1 {
			r := unparen(st.Results[0])
			if id, ok := r.(*ast.Ident); ok {
				if id.Name == "nil" {
					out.ret = ".nilAlways"
					return
				}
				if e.locals[e.info.ObjectOf(id)] == "TERNARY" {
					out.ret = ".readerOrParse"
					return
				}
				if e.locals[e.info.ObjectOf(id)] == "READERERR" {
					out.ret = ".readerErr"
					return
				}
				if e.locals[e.info.ObjectOf(id)] == "PARSEERR" && out.readerErrReturned {
					out.ret = ".readerOrParse"
					return
				}
			}
			if c, ok := r.(*ast.CallExpr); ok && w.isReaderOrParse(e, c) {
				out.ret = ".readerOrParse"
				return
			}
			if c, ok := r.(*ast.CallExpr); ok {
				if fn, recv := w.callee(e, c); fn != nil && fn.Name() == "Error" && recv != nil && isObj(e, recv, e.reader) {
					out.ret = ".readerErr"
					return
				}
				// return finish(b): a helper that only hands back the reader's verdict (and may release the reader)
				if e.reader != nil {
					if fd, ne, ok := w.bindCall(e, c); ok && ne.reader != nil {
						var tmp decOut
						w.decStmts(ne, fd.Body.List, &tmp)
						bad := lostWrites(ne, tmp.ops, false)
						for _, o := range tmp.ops {
							if strings.HasPrefix(o, ".unsupported") {
								bad = true
							}
						}
						if !bad && tmp.ret != "" {
							out.ops = append(out.ops, tmp.ops...)
							out.ret = tmp.ret
							return
						}
					}
				}
				// return decodeHeaderOnly(data, &p.Header): a helper that does the rest of the decoding with its own reader
				if e.reader == nil {
					if fd, ne, ok := w.bindCall(e, c); ok {
						var tmp decOut
						w.decStmts(ne, fd.Body.List, &tmp)
						if !lostWrites(ne, tmp.ops, false) {
							out.ops = append(out.ops, tmp.ops...)
							out.ret = tmp.ret
							out.readerErrReturned = out.readerErrReturned || tmp.readerErrReturned
							return
						}
					}
				}
			}
		}
	case *ast.ExprStmt:
		// readCommon(b, p): a library function that receives the reader is inlined (it must not return anything that is dropped here)
		if c, ok := st.X.(*ast.CallExpr); ok && e.reader != nil {
			if fd, ne, ok := w.bindCall(e, c); ok && ne.reader != nil && (fd.Type.Results == nil || len(fd.Type.Results.List) == 0) {
				var tmp decOut
				w.decStmts(ne, fd.Body.List, &tmp)
				if !lostWrites(ne, tmp.ops, false) && tmp.ret == "" {
					out.ops = append(out.ops, tmp.ops...)
					out.readerErrReturned = out.readerErrReturned || tmp.readerErrReturned
					return
				}
			}
		}
	}
	out.ops = append(out.ops, w.unsup(s))
}

// inlineReadHeader: func ReadHeader(r *packet.Reader) Header { var h Header; h.X = r.ReadUint32(); …; return h }
func (w *world) inlineReadHeader(fn *types.Func, prefix string) ([]string, bool) {
	fd := w.funcs[fn]
	if fd == nil || fd.Body == nil || len(fd.Type.Params.List) != 1 || len(fd.Type.Params.List[0].Names) != 1 {
		return nil, false
	}
	info := w.infoOf[fd]
	e := &env{info: info, paths: map[types.Object]string{}, locals: map[types.Object]string{}, bytesL: map[types.Object]string{}}
	e.reader = info.ObjectOf(fd.Type.Params.List[0].Names[0])
	var out decOut
	// return Header{A: a, B: T(b), C: readPart(r)}: locals that end up in a field stand for it, fields given by a
	// call are read when the literal is evaluated (after every statement, in the order written)
	type late struct {
		path string
		t    types.Type
		x    ast.Expr
	}
	var lates []late
	litReturn := false
	if n := len(fd.Body.List); n >= 1 {
		if ret, ok := fd.Body.List[n-1].(*ast.ReturnStmt); ok && len(ret.Results) == 1 {
			if cl, ok := unparen(ret.Results[0]).(*ast.CompositeLit); ok {
				st, isStruct := info.TypeOf(cl).Underlying().(*types.Struct)
				if !isStruct {
					return nil, false
				}
				ftype := map[string]types.Type{}
				for i := 0; i < st.NumFields(); i++ {
					ftype[st.Field(i).Name()] = st.Field(i).Type()
				}
				seen := map[types.Object]bool{}
				for _, el := range cl.Elts {
					kv, ok := el.(*ast.KeyValueExpr)
					if !ok {
						return nil, false
					}
					name := kv.Key.(*ast.Ident).Name
					path := name
					if prefix != "" {
						path = prefix + "." + name
					}
					v := unparen(kv.Value)
					inner := v
					if c, ok := v.(*ast.CallExpr); ok && len(c.Args) == 1 {
						if tv, ok := info.Types[c.Fun]; ok && tv.IsType() {
							inner = unparen(c.Args[0])
						}
					}
					if id, ok := inner.(*ast.Ident); ok {
						o, isVar := info.ObjectOf(id).(*types.Var)
						if !isVar || seen[o] || uintBytes(o.Type()) == 0 || uintBytes(o.Type()) != uintBytes(ftype[name]) {
							if !isVar || seen[o] || !types.Identical(o.Type(), ftype[name]) {
								return nil, false
							}
						}
						seen[o] = true
						e.paths[o] = path
						continue
					}
					if _, ok := v.(*ast.CallExpr); ok {
						lates = append(lates, late{path, ftype[name], v})
						continue
					}
					return nil, false
				}
				litReturn = true
			}
		}
	}
	for si, s := range fd.Body.List {
		if litReturn && si == len(fd.Body.List)-1 {
			for _, l := range lates {
				if op, ok := w.assignRead(e, l.path, l.t, l.x); ok {
					out.ops = append(out.ops, op)
					continue
				}
				if c, ok := l.x.(*ast.CallExpr); ok && w.resultCallP(e, []string{l.path}, []types.Type{l.t}, c, &out) {
					continue
				}
				return nil, false
			}
			continue
		}
		switch st := s.(type) {
		case *ast.DeclStmt: // var h Header
			if gd, ok := st.Decl.(*ast.GenDecl); ok && gd.Tok == token.VAR && len(gd.Specs) == 1 {
				if vs, ok := gd.Specs[0].(*ast.ValueSpec); ok && len(vs.Names) == 1 && len(vs.Values) == 0 {
					e.paths[info.ObjectOf(vs.Names[0])] = prefix
					continue
				}
			}
			return nil, false
		case *ast.AssignStmt:
			if st.Tok == token.DEFINE && len(st.Lhs) == 1 && len(st.Rhs) == 1 { // h := Header{}
				if cl, ok := st.Rhs[0].(*ast.CompositeLit); ok && len(cl.Elts) == 0 {
					e.paths[info.ObjectOf(st.Lhs[0].(*ast.Ident))] = prefix
					continue
				}
			}
			w.decStmt(e, s, &out)
		case *ast.ReturnStmt:
			if len(st.Results) == 1 {
				if p, ok := w.fieldPath(e, st.Results[0]); ok && p == prefix {
					continue
				}
			}
			return nil, false
		case *ast.RangeStmt, *ast.ExprStmt:
			w.decStmt(e, s, &out) // incl. h.readFrom(r): a method of the header that reads into it
		default:
			return nil, false
		}
	}
	for _, o := range out.ops {
		if strings.HasPrefix(o, ".unsupported") {
			return nil, false
		}
	}
	return out.ops, len(out.ops) > 0
}

// ---------------------------------------------------------------------------------------------

type pduInfo struct {
	pkg   *packages.Package
	named *types.Named
	name  string // "cmpp20.PduSubmit"
	lean  string // "cmpp20_PduSubmit"
	enc   *ast.FuncDecl
	dec   *ast.FuncDecl
}

func (w *world) method(named *types.Named, name string) *ast.FuncDecl {
	ms := types.NewMethodSet(types.NewPointer(named))
	for i := 0; i < ms.Len(); i++ {
		if fn, ok := ms.At(i).Obj().(*types.Func); ok && fn.Name() == name {
			if fd := w.funcs[fn]; fd != nil && fd.Recv != nil {
				// only methods declared on this type itself (not promoted)
				if len(ms.At(i).Index()) == 1 {
					return fd
				}
			}
		}
	}
	return nil
}

func (w *world) pdus() []pduInfo {
	var res []pduInfo
	var paths []string
	for p := range w.pkgs {
		if strings.HasPrefix(p, modPath) {
			paths = append(paths, p)
		}
	}
	sort.Strings(paths)
	for _, pp := range paths {
		p := w.pkgs[pp]
		scope := p.Types.Scope()
		for _, n := range scope.Names() {
			tn, ok := scope.Lookup(n).(*types.TypeName)
			if !ok {
				continue
			}
			named, ok := tn.Type().(*types.Named)
			if !ok {
				continue
			}
			if _, ok := named.Underlying().(*types.Struct); !ok {
				continue
			}
			enc, dec := w.method(named, "IEncode"), w.method(named, "IDecode")
			if enc == nil || dec == nil {
				continue
			}
			res = append(res, pduInfo{pkg: p, named: named, name: p.Types.Name() + "." + n, lean: p.Types.Name() + "_" + n, enc: enc, dec: dec})
		}
	}
	return res
}

func recvObj(info *types.Info, fd *ast.FuncDecl) types.Object {
	if fd.Recv == nil || len(fd.Recv.List) != 1 || len(fd.Recv.List[0].Names) != 1 {
		return nil
	}
	return info.ObjectOf(fd.Recv.List[0].Names[0])
}

func leanList(items []string, indent string) string {
	if len(items) == 0 {
		return "[]"
	}
	return "[\n" + indent + strings.Join(items, ",\n"+indent) + "]"
}

type pduJSON struct {
	Name   string      `json:"name"`
	Fields [][2]string `json:"fields"`
	Enc    []string    `json:"enc"`
	Fin    string      `json:"fin"`
	Dec    []string    `json:"dec"`
	Ret    string      `json:"ret"`
}

var jsonPdus []pduJSON

func (w *world) layoutsJSON() string {
	b, err := json.MarshalIndent(jsonPdus, "", " ")
	if err != nil {
		panic(err)
	}
	return string(b) + "\n"
}

func (w *world) genLayouts() string {
	var sb strings.Builder
	sb.WriteString("-- GENERATED by /verif/go/extract from the Go source of the repository's working tree. Do not edit.\n")
	sb.WriteString("import SmsVerif.Model.Layout\nnamespace SmsVerif.Gen\nopen SmsVerif\n\n")
	var names []string
	for _, pi := range w.pdus() {
		var fs []field
		w.flatten("", pi.named, &fs)
		var flds []string
		for _, f := range fs {
			flds = append(flds, fmt.Sprintf("(%s, %s)", q(f.path), f.ty))
		}
		// encode
		info := pi.pkg.TypesInfo
		ee := &env{info: info, paths: map[types.Object]string{}, locals: map[types.Object]string{}, bytesL: map[types.Object]string{}}
		if ro := recvObj(info, pi.enc); ro != nil {
			ee.paths[ro] = ""
		}
		var eo encOut
		w.encStmts(ee, pi.enc.Body.List, &eo)
		if eo.fin == "" {
			eo.fin = ".plain"
			eo.ops = append(eo.ops, fmt.Sprintf(".unsupported %s", q(w.pos(pi.enc)+" no recognised return")))
		}
		// decode
		de := &env{info: info, paths: map[types.Object]string{}, locals: map[types.Object]string{}, bytesL: map[types.Object]string{}}
		if ro := recvObj(info, pi.dec); ro != nil {
			de.paths[ro] = ""
		}
		var do decOut
		w.decStmts(de, pi.dec.Body.List, &do)
		if do.ret == "" {
			do.ret = ".readerErr"
			do.ops = append(do.ops, fmt.Sprintf(".unsupported %s", q(w.pos(pi.dec)+" no recognised return")))
		}
		fmt.Fprintf(&sb, "def %s : PduDesc := {\n  name := %s,\n  fields := %s,\n  enc := %s,\n  fin := %s,\n  dec := %s,\n  ret := %s }\n\n",
			pi.lean, q(pi.name), leanList(flds, "    "), leanList(eo.ops, "    "), eo.fin, leanList(do.ops, "    "), do.ret)
		names = append(names, pi.lean)
		pj := pduJSON{Name: pi.name, Enc: eo.ops, Fin: eo.fin, Dec: do.ops, Ret: do.ret}
		for _, f := range fs {
			pj.Fields = append(pj.Fields, [2]string{f.path, f.ty})
		}
		jsonPdus = append(jsonPdus, pj)
	}
	fmt.Fprintf(&sb, "def allPdus : List PduDesc := [%s]\n\nend SmsVerif.Gen\n", strings.Join(names, ", "))
	return sb.String()
}
