package main

import (
	"fmt"
	"golang.org/x/tools/go/packages"
)

func main() {
	cfg := &packages.Config{Mode: packages.LoadAllSyntax, Dir: "/repo"}
	pkgs, err := packages.Load(cfg, "./...")
	fmt.Println(len(pkgs), err)
}
