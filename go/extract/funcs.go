package main

// Straight-line integer functions (C17): `cmpp.CombineMsgID` and `cmpp.SplitMsgID` are translated
// statement by statement into Lean definitions over `Nat` with Go's fixed-width arithmetic made
// explicit (`+`, `*`, `<<` and `-` reduce modulo 2^width of the operand type, narrowing conversions
// reduce modulo the target width).  The statement set is closed: anything but `var x T`,
// `x = e`, `x := e`, `return` (naked or with values) makes the function `unsupported`, and the
// theorems that tie the translation to the model no longer typecheck.

import (
	"fmt"
	"go/ast"
	"go/constant"
	"go/token"
	"go/types"
	"strings"
)

var straightFuncs = []string{modPath + "/cmpp.CombineMsgID", modPath + "/cmpp.SplitMsgID"}

func uintWidth(t types.Type) int {
	b, ok := t.Underlying().(*types.Basic)
	if !ok {
		return 0
	}
	switch b.Kind() {
	case types.Uint8:
		return 8
	case types.Uint16:
		return 16
	case types.Uint32:
		return 32
	case types.Uint64, types.Uint, types.Uintptr:
		return 64
	}
	return 0
}

// 2^w as a decimal string
func pow2(w int) string {
	return constant.Shift(constant.MakeInt64(1), token.SHL, uint(w)).ExactString()
}

// nval is a translated unsigned expression: Lean text, plus its value when it is a constant
type nval struct {
	s string
	c constant.Value
}

func constVal(c constant.Value) nval { return nval{s: c.ExactString(), c: c} }

// natEnv maps variables to what they stand for (parameters of an inlined helper to the argument
// expressions, locals of an inlined helper to their defining expressions, constants to their value)
type natEnv map[types.Object]nval

func (w *world) natExpr(info *types.Info, x ast.Expr) (string, bool) {
	v, ok := w.natEval(info, natEnv{}, x, 0)
	return v.s, ok
}

func foldBin(op token.Token, a, b constant.Value, width int) (constant.Value, bool) {
	mod := constant.Shift(constant.MakeInt64(1), token.SHL, uint(width))
	red := func(v constant.Value) constant.Value { return constant.BinaryOp(v, token.REM, mod) }
	switch op {
	case token.ADD, token.MUL, token.AND, token.OR:
		return red(constant.BinaryOp(a, op, b)), true
	case token.SUB:
		return red(constant.BinaryOp(constant.BinaryOp(a, token.ADD, mod), token.SUB, b)), true
	case token.SHL, token.SHR:
		n, ok := constant.Uint64Val(b)
		if !ok || n > 4096 {
			return nil, false
		}
		return red(constant.Shift(a, op, uint(n))), true
	case token.REM, token.QUO:
		if constant.Sign(b) == 0 {
			return nil, false
		}
		if op == token.QUO {
			return constant.BinaryOp(a, token.QUO_ASSIGN, b), true // integer division
		}
		return constant.BinaryOp(a, token.REM, b), true
	}
	return nil, false
}

func (w *world) natBin(op token.Token, a, b nval, wd int) (nval, bool) {
	if wd == 0 {
		return nval{}, false
	}
	if a.c != nil && b.c != nil {
		if c, ok := foldBin(op, a.c, b.c, wd); ok {
			return constVal(c), true
		}
	}
	isZero := func(v nval) bool { return v.c != nil && constant.Sign(v.c) == 0 }
	m := pow2(wd)
	switch op {
	case token.ADD:
		return nval{s: fmt.Sprintf("((%s + %s) %% %s)", a.s, b.s, m)}, true
	case token.MUL:
		return nval{s: fmt.Sprintf("((%s * %s) %% %s)", a.s, b.s, m)}, true
	case token.SUB:
		return nval{s: fmt.Sprintf("((%s + %s - %s) %% %s)", a.s, m, b.s, m)}, true
	case token.SHL:
		if isZero(b) {
			return a, true
		}
		return nval{s: fmt.Sprintf("((%s <<< %s) %% %s)", a.s, b.s, m)}, true
	case token.SHR:
		if isZero(b) {
			return a, true
		}
		return nval{s: fmt.Sprintf("(%s >>> %s)", a.s, b.s)}, true
	case token.AND:
		return nval{s: fmt.Sprintf("(%s &&& %s)", a.s, b.s)}, true
	case token.OR:
		return nval{s: fmt.Sprintf("(%s ||| %s)", a.s, b.s)}, true
	case token.REM:
		return nval{s: fmt.Sprintf("(%s %% %s)", a.s, b.s)}, true
	case token.QUO:
		return nval{s: fmt.Sprintf("(%s / %s)", a.s, b.s)}, true
	}
	return nval{}, false
}

// straightHelper evaluates a call of a package-level function whose body is straight-line
// (`x := e`, `x = e`, `x op= e`, `var x T`, one final `return e`) by substitution
func (w *world) natCall(info *types.Info, env natEnv, call *ast.CallExpr, depth int) (nval, bool) {
	if depth > 4 {
		return nval{}, false
	}
	var fn *types.Func
	switch f := unparen(call.Fun).(type) {
	case *ast.Ident:
		fn, _ = info.Uses[f].(*types.Func)
	case *ast.SelectorExpr:
		fn, _ = info.Uses[f.Sel].(*types.Func)
	}
	if fn == nil {
		return nval{}, false
	}
	fd := w.funcs[fn]
	if fd == nil || fd.Body == nil || fd.Recv != nil {
		return nval{}, false
	}
	sig := fn.Type().(*types.Signature)
	if sig.Results().Len() != 1 || uintWidth(sig.Results().At(0).Type()) == 0 || sig.Params().Len() != len(call.Args) || sig.Variadic() {
		return nval{}, false
	}
	inner := natEnv{}
	for i, a := range call.Args {
		pt := sig.Params().At(i).Type()
		if uintWidth(pt) == 0 {
			return nval{}, false
		}
		v, ok := w.natEval(info, env, a, depth)
		if !ok {
			return nval{}, false
		}
		if v.c != nil { // an untyped constant argument takes the parameter's type
			v = constVal(constant.BinaryOp(v.c, token.REM, constant.Shift(constant.MakeInt64(1), token.SHL, uint(uintWidth(pt)))))
		}
		inner[sig.Params().At(i)] = v
	}
	hinfo := w.infoOf[fd]
	for i, st := range fd.Body.List {
		switch s := st.(type) {
		case *ast.ReturnStmt:
			if i != len(fd.Body.List)-1 || len(s.Results) != 1 {
				return nval{}, false
			}
			return w.natEval(hinfo, inner, s.Results[0], depth+1)
		case *ast.AssignStmt:
			obj, v, ok := w.natAssign(hinfo, inner, s, depth+1)
			if !ok {
				return nval{}, false
			}
			inner[obj] = v
		default:
			return nval{}, false
		}
	}
	return nval{}, false
}

// natAssign evaluates `x := e`, `x = e`, `x op= e` on one unsigned variable
func (w *world) natAssign(info *types.Info, env natEnv, s *ast.AssignStmt, depth int) (types.Object, nval, bool) {
	if len(s.Lhs) != 1 || len(s.Rhs) != 1 {
		return nil, nval{}, false
	}
	id, ok := s.Lhs[0].(*ast.Ident)
	if !ok || uintWidth(info.TypeOf(s.Lhs[0])) == 0 {
		return nil, nval{}, false
	}
	obj := info.ObjectOf(id)
	rhs, ok := w.natEval(info, env, s.Rhs[0], depth)
	if !ok || obj == nil {
		return nil, nval{}, false
	}
	wd := uintWidth(info.TypeOf(s.Lhs[0]))
	if rhs.c != nil {
		rhs = constVal(constant.BinaryOp(rhs.c, token.REM, constant.Shift(constant.MakeInt64(1), token.SHL, uint(wd))))
	}
	switch s.Tok {
	case token.ASSIGN, token.DEFINE:
		return obj, rhs, true
	}
	ops := map[token.Token]token.Token{token.ADD_ASSIGN: token.ADD, token.SUB_ASSIGN: token.SUB, token.MUL_ASSIGN: token.MUL, token.SHL_ASSIGN: token.SHL,
		token.SHR_ASSIGN: token.SHR, token.AND_ASSIGN: token.AND, token.OR_ASSIGN: token.OR, token.REM_ASSIGN: token.REM, token.QUO_ASSIGN: token.QUO}
	op, ok := ops[s.Tok]
	if !ok {
		return nil, nval{}, false
	}
	cur, ok := env[obj]
	if !ok {
		cur = nval{s: id.Name}
	}
	v, ok := w.natBin(op, cur, rhs, wd)
	return obj, v, ok
}

func (w *world) natEval(info *types.Info, env natEnv, x ast.Expr, depth int) (nval, bool) {
	x = unparen(x)
	if tv, ok := info.Types[x]; ok && tv.Value != nil && tv.Value.Kind() == constant.Int {
		return constVal(tv.Value), true
	}
	switch t := x.(type) {
	case *ast.Ident:
		if obj, ok := info.Uses[t].(*types.Var); ok {
			if v, ok := env[obj]; ok {
				return v, true
			}
			return nval{s: t.Name}, true
		}
	case *ast.CallExpr: // conversion uintN(e), or a straight-line helper
		if len(t.Args) == 1 {
			if tv, ok := info.Types[t.Fun]; ok && tv.IsType() {
				to := uintWidth(tv.Type)
				from := uintWidth(info.Types[t.Args[0]].Type)
				a, ok := w.natEval(info, env, t.Args[0], depth)
				if !ok || to == 0 {
					return nval{}, false
				}
				if a.c != nil {
					return constVal(constant.BinaryOp(a.c, token.REM, constant.Shift(constant.MakeInt64(1), token.SHL, uint(to)))), true
				}
				if from == 0 {
					return nval{}, false
				}
				if to < from {
					return nval{s: fmt.Sprintf("(%s %% %s)", a.s, pow2(to))}, true
				}
				return a, true
			}
		}
		return w.natCall(info, env, t, depth)
	case *ast.BinaryExpr:
		wd := uintWidth(info.Types[t].Type)
		a, ok1 := w.natEval(info, env, t.X, depth)
		b, ok2 := w.natEval(info, env, t.Y, depth)
		if !ok1 || !ok2 {
			return nval{}, false
		}
		if wd == 0 && (t.Op == token.SHL || t.Op == token.SHR) {
			wd = uintWidth(info.Types[t.X].Type)
		}
		return w.natBin(t.Op, a, b, wd)
	}
	return nval{}, false
}

func (w *world) genFuncs() string {
	var sb strings.Builder
	sb.WriteString("-- GENERATED by /verif/go/extract from the Go source of the repository's working tree. Do not edit.\n")
	sb.WriteString("namespace SmsVerif.Gen\n\n")
	var unsupported []string
	for _, full := range straightFuncs {
		var fn *types.Func
		for f := range w.funcs {
			if fullName(f) == full {
				fn = f
			}
		}
		lname := strings.ReplaceAll(full[strings.LastIndex(full, "/")+1:], ".", "_")
		if fn == nil {
			unsupported = append(unsupported, q(full+": not found"))
			continue
		}
		fd := w.funcs[fn]
		info := w.infoOf[fd]
		sig := fn.Type().(*types.Signature)
		var params, results []string
		okAll := true
		for i := 0; i < sig.Params().Len(); i++ {
			params = append(params, sig.Params().At(i).Name())
			if uintWidth(sig.Params().At(i).Type()) == 0 {
				okAll = false
			}
		}
		var lets []string
		named := sig.Results().Len() > 0 && sig.Results().At(0).Name() != ""
		for i := 0; i < sig.Results().Len(); i++ {
			if uintWidth(sig.Results().At(i).Type()) == 0 {
				okAll = false
			}
			if named {
				results = append(results, sig.Results().At(i).Name())
				lets = append(lets, fmt.Sprintf("let %s := 0", sig.Results().At(i).Name()))
			}
		}
		var ret string
		bad := ""
		topEnv := natEnv{}
		if fd.Body == nil {
			okAll = false
		}
		for i, st := range fd.Body.List {
			if !okAll || bad != "" {
				break
			}
			if ret != "" {
				bad = w.pos(st) // statement after return
				break
			}
			switch s := st.(type) {
			case *ast.DeclStmt:
				gd, ok := s.Decl.(*ast.GenDecl)
				if !ok || gd.Tok != token.VAR {
					bad = w.pos(st)
					break
				}
				for _, sp := range gd.Specs {
					vs := sp.(*ast.ValueSpec)
					if len(vs.Values) != 0 {
						bad = w.pos(st)
						break
					}
					for _, id := range vs.Names {
						if uintWidth(info.Defs[id].Type()) == 0 {
							bad = w.pos(st)
						}
						lets = append(lets, fmt.Sprintf("let %s := 0", id.Name))
					}
				}
			case *ast.AssignStmt:
				obj, v, ok := w.natAssign(info, topEnv, s, 0)
				if !ok {
					bad = w.pos(st)
					break
				}
				delete(topEnv, obj) // from here on the variable is the `let` below
				lets = append(lets, fmt.Sprintf("let %s := %s", obj.Name(), v.s))
			case *ast.ReturnStmt:
				if len(s.Results) == 0 && named {
					ret = "(" + strings.Join(results, ", ") + ")"
				} else {
					var es []string
					for _, r := range s.Results {
						e, ok := w.natExpr(info, r)
						if !ok {
							bad = w.pos(st)
						}
						es = append(es, e)
					}
					ret = "(" + strings.Join(es, ", ") + ")"
				}
				_ = i
			default:
				bad = w.pos(st)
			}
		}
		if !okAll || bad != "" || ret == "" {
			unsupported = append(unsupported, q(full+": unsupported statement "+bad))
			continue
		}
		rt := "Nat"
		if n := sig.Results().Len(); n > 1 {
			rt = strings.TrimSuffix(strings.Repeat("Nat × ", n), " × ")
		}
		fmt.Fprintf(&sb, "/-- `%s` (%s), Go's unsigned arithmetic made explicit -/\ndef %s (%s : Nat) : %s :=\n", fn.Name(), w.pos(fd), lname, strings.Join(params, " "), rt)
		for _, l := range lets {
			fmt.Fprintf(&sb, "  %s\n", l)
		}
		fmt.Fprintf(&sb, "  %s\n\n", ret)
	}
	fmt.Fprintf(&sb, "def funcsUnsupported : List String := %s\n\n", leanList(unsupported, "  "))
	// the decimal format shared by printer and scanner
	msgFmt := "?"
	if p := w.pkgs[modPath+"/cmpp"]; p != nil {
		if c, ok := p.Types.Scope().Lookup("msgIDFormat").(*types.Const); ok && c.Val().Kind() == constant.String {
			msgFmt = constant.StringVal(c.Val())
		}
	}
	fmt.Fprintf(&sb, "def msgIDFormat : String := %s\n\n", q(msgFmt))
	sb.WriteString(w.genDigests())
	sb.WriteString("end SmsVerif.Gen\n")
	return sb.String()
}
