package main

// Gen/Tables.lean: per-type metadata (GetCommand, GenEmptyResponse, Get/SetSequenceID), the
// dispatcher switches, and constants / lookup tables of the hand-modelled algorithms.

import (
	"fmt"
	"go/ast"
	"go/constant"
	"go/token"
	"go/types"
	"sort"
	"strconv"
	"strings"
)

type valExpr struct {
	e *env
	x ast.Expr
}

func (w *world) methodOf(named *types.Named, name string) (*ast.FuncDecl, *types.Info) {
	fd := w.method(named, name)
	if fd == nil {
		return nil, nil
	}
	return fd, w.infoOf[fd]
}

func newEnv(info *types.Info) *env {
	return &env{info: info, paths: map[types.Object]string{}, locals: map[types.Object]string{}, bytesL: map[types.Object]string{}}
}

func constU64(info *types.Info, x ast.Expr) (uint64, bool) {
	if tv, ok := info.Types[x]; ok && tv.Value != nil && tv.Value.Kind() == constant.Int {
		return constant.Uint64Val(tv.Value)
	}
	return 0, false
}

// cmdSpec translates GetCommand.
func (w *world) cmdSpec(named *types.Named) string {
	fd, info := w.methodOf(named, "GetCommand")
	if fd == nil {
		return `.unknown "no GetCommand"`
	}
	e := newEnv(info)
	if ro := recvObj(info, fd); ro != nil {
		e.paths[ro] = ""
	}
	body := fd.Body.List
	if len(body) == 1 {
		if r, ok := body[0].(*ast.ReturnStmt); ok && len(r.Results) == 1 {
			if n, ok := constU64(info, r.Results[0]); ok {
				return fmt.Sprintf(".const %d", n)
			}
		}
	}
	// switch p.F { case A, B: return p.F }; return C
	if len(body) == 2 {
		sw, ok1 := body[0].(*ast.SwitchStmt)
		ret, ok2 := body[1].(*ast.ReturnStmt)
		if ok1 && ok2 && sw.Init == nil && sw.Tag != nil && len(ret.Results) == 1 && len(sw.Body.List) == 1 {
			if fp, ok := w.fieldPath(e, sw.Tag); ok {
				cc := sw.Body.List[0].(*ast.CaseClause)
				if len(cc.Body) == 1 {
					if r, ok := cc.Body[0].(*ast.ReturnStmt); ok && len(r.Results) == 1 {
						if fp2, ok := w.fieldPath(e, r.Results[0]); ok && fp2 == fp {
							var allowed []string
							good := true
							for _, c := range cc.List {
								n, ok := constU64(info, c)
								if !ok {
									good = false
								}
								allowed = append(allowed, fmt.Sprint(n))
							}
							if d, ok := constU64(info, ret.Results[0]); ok && good {
								return fmt.Sprintf(".hdrOr %s [%s] %d", q(fp), strings.Join(allowed, ", "), d)
							}
						}
					}
				}
			}
		}
	}
	return fmt.Sprintf(".unknown %s", q(w.pos(fd)))
}

// seqGet / seqSet translate Get/SetSequenceID to a field path.
func (w *world) seqGet(named *types.Named) string {
	fd, info := w.methodOf(named, "GetSequenceID")
	if fd == nil || len(fd.Body.List) != 1 {
		return "?"
	}
	e := newEnv(info)
	if ro := recvObj(info, fd); ro != nil {
		e.paths[ro] = ""
	}
	if r, ok := fd.Body.List[0].(*ast.ReturnStmt); ok && len(r.Results) == 1 {
		if p, ok := w.fieldPath(e, r.Results[0]); ok {
			return p
		}
	}
	return "?"
}

func (w *world) seqSet(named *types.Named) string {
	fd, info := w.methodOf(named, "SetSequenceID")
	if fd == nil || len(fd.Body.List) != 1 || len(fd.Type.Params.List) != 1 || len(fd.Type.Params.List[0].Names) != 1 {
		return "?"
	}
	e := newEnv(info)
	if ro := recvObj(info, fd); ro != nil {
		e.paths[ro] = ""
	}
	if a, ok := fd.Body.List[0].(*ast.AssignStmt); ok && a.Tok == token.ASSIGN && len(a.Lhs) == 1 && len(a.Rhs) == 1 {
		if id, ok := unparen(a.Rhs[0]).(*ast.Ident); ok && info.ObjectOf(id) == info.ObjectOf(fd.Type.Params.List[0].Names[0]) {
			if p, ok := w.fieldPath(e, a.Lhs[0]); ok {
				return p
			}
		}
	}
	return "?"
}

// headerFields expands a header expression (composite literal or NewHeader-style constructor call)
// into field path -> value expression (with the environment it must be read in).
func (w *world) headerFields(e *env, x ast.Expr, prefix string, out map[string]valExpr) bool {
	x = unparen(x)
	switch v := x.(type) {
	case *ast.CompositeLit:
		t := e.info.TypeOf(v)
		switch u := t.Underlying().(type) {
		case *types.Struct:
			for i, el := range v.Elts {
				kv, ok := el.(*ast.KeyValueExpr)
				name := ""
				var val ast.Expr
				if ok {
					name = kv.Key.(*ast.Ident).Name
					val = kv.Value
				} else {
					if i >= u.NumFields() {
						return false
					}
					name = u.Field(i).Name()
					val = el
				}
				p := name
				if prefix != "" {
					p = prefix + "." + name
				}
				if cl, ok := unparen(val).(*ast.CompositeLit); ok {
					if !w.headerFields(e, cl, p, out) {
						return false
					}
					continue
				}
				if call, ok := unparen(val).(*ast.CallExpr); ok {
					if _, isStruct := e.info.TypeOf(call).Underlying().(*types.Struct); isStruct {
						if w.headerFields(e, call, p, out) {
							continue
						}
					}
				}
				out[p] = valExpr{e, val}
			}
			return true
		case *types.Array:
			for i, el := range v.Elts {
				out[fmt.Sprintf("%s.%d", prefix, i)] = valExpr{e, el}
			}
			return true
		}
	case *ast.CallExpr:
		fn, recv := w.callee(e, v)
		if fn == nil || recv != nil {
			return false
		}
		fd := w.funcs[fn]
		if fd == nil || fd.Body == nil || len(fd.Body.List) != 1 {
			return false
		}
		ret, ok := fd.Body.List[0].(*ast.ReturnStmt)
		if !ok || len(ret.Results) != 1 {
			return false
		}
		finfo := w.infoOf[fd]
		// bind parameters to argument expressions
		args := map[types.Object]valExpr{}
		idx := 0
		for _, pf := range fd.Type.Params.List {
			for _, nm := range pf.Names {
				if idx < len(v.Args) {
					args[finfo.ObjectOf(nm)] = valExpr{e, v.Args[idx]}
				}
				idx++
			}
		}
		ne := newEnv(finfo)
		// a parameter that receives (part of) the request value stands for it: `req sgip.Header` ← `b.Header`
		ne.parent = e
		idx = 0
		for _, pf := range fd.Type.Params.List {
			for _, nm := range pf.Names {
				if idx < len(v.Args) {
					if _, isStruct := finfo.ObjectOf(nm).Type().Underlying().(*types.Struct); isStruct {
						if p, ok := w.fieldPath(e, v.Args[idx]); ok {
							ne.paths[finfo.ObjectOf(nm)] = p
						}
					}
				}
				idx++
			}
		}
		tmp := map[string]valExpr{}
		if !w.headerFields(ne, ret.Results[0], prefix, tmp) {
			return false
		}
		for k, ve := range tmp {
			if id, ok := unparen(ve.x).(*ast.Ident); ok {
				if a, ok := args[finfo.ObjectOf(id)]; ok {
					out[k] = a
					continue
				}
			}
			out[k] = ve
		}
		return true
	}
	return false
}

// respSpec translates GenEmptyResponse: the shapes the code base uses are matched directly; anything else is
// evaluated symbolically (resp.go)
func (w *world) respSpec(pi pduInfo, getSeq string) string {
	r := w.respSpecShapes(pi, getSeq)
	if strings.HasPrefix(r, ".unknown") {
		if r2, words := w.respByEval(pi, getSeq); r2 != "" {
			w.lastSeqWords = words
			return r2
		}
	}
	return r
}

func (w *world) respSpecShapes(pi pduInfo, getSeq string) string {
	fd, info := w.methodOf(pi.named, "GenEmptyResponse")
	if fd == nil {
		return `.unknown "no GenEmptyResponse"`
	}
	e := newEnv(info)
	recv := recvObj(info, fd)
	if recv != nil {
		e.paths[recv] = ""
	}
	unk := fmt.Sprintf(".unknown %s", q(w.pos(fd)))
	body := fd.Body.List
	// return p.OtherMethod(): the response is built by another method of the same value, without arguments
	for depth := 0; depth < 3 && len(body) == 1; depth++ {
		ret, ok := body[0].(*ast.ReturnStmt)
		if !ok || len(ret.Results) != 1 {
			break
		}
		c, ok := unparen(ret.Results[0]).(*ast.CallExpr)
		if !ok || len(c.Args) != 0 {
			break
		}
		fn, r := w.callee(e, c)
		if fn == nil || r == nil {
			break
		}
		if p, ok := w.fieldPath(e, r); !ok || p != "" {
			break
		}
		mfd := w.funcs[fn]
		if mfd == nil || mfd.Body == nil || mfd.Recv == nil {
			break
		}
		info = w.infoOf[mfd]
		e = newEnv(info)
		if mr := recvObj(info, mfd); mr != nil {
			e.paths[mr] = ""
		}
		body = mfd.Body.List
	}
	// v := &T{…}; return v
	if len(body) == 2 {
		if as, ok := body[0].(*ast.AssignStmt); ok && as.Tok == token.DEFINE && len(as.Lhs) == 1 && len(as.Rhs) == 1 {
			if ret, ok := body[1].(*ast.ReturnStmt); ok && len(ret.Results) == 1 && isObj(e, ret.Results[0], info.ObjectOf(as.Lhs[0].(*ast.Ident))) {
				if un, ok := unparen(as.Rhs[0]).(*ast.UnaryExpr); ok && un.Op == token.AND {
					body = []ast.Stmt{&ast.ReturnStmt{Results: []ast.Expr{as.Rhs[0]}}}
				}
			}
		}
	}
	// optional leading:  id := CONST; switch p.F { case A: id = X; case B: id = Y }
	var idObj types.Object
	rcmdByReq := ""
	if len(body) == 3 {
		as, ok1 := body[0].(*ast.AssignStmt)
		sw, ok2 := body[1].(*ast.SwitchStmt)
		if !ok1 || !ok2 || as.Tok != token.DEFINE || len(as.Lhs) != 1 || sw.Tag == nil {
			return unk
		}
		d, ok := constU64(info, as.Rhs[0])
		fp, ok3 := w.fieldPath(e, sw.Tag)
		if !ok || !ok3 {
			return unk
		}
		idObj = info.ObjectOf(as.Lhs[0].(*ast.Ident))
		var rows []string
		for _, st := range sw.Body.List {
			cc := st.(*ast.CaseClause)
			if len(cc.Body) != 1 {
				return unk
			}
			a, ok := cc.Body[0].(*ast.AssignStmt)
			if !ok || a.Tok != token.ASSIGN || len(a.Lhs) != 1 || !isObj(e, a.Lhs[0], idObj) {
				return unk
			}
			v, ok := constU64(info, a.Rhs[0])
			if !ok {
				return unk
			}
			for _, c := range cc.List {
				k, ok := constU64(info, c)
				if !ok {
					return unk
				}
				rows = append(rows, fmt.Sprintf("(%d, %d)", k, v))
			}
		}
		rcmdByReq = fmt.Sprintf("(.byReq %s [%s] %d)", q(fp), strings.Join(rows, ", "), d)
		body = body[2:]
	}
	if len(body) != 1 {
		return unk
	}
	ret, ok := body[0].(*ast.ReturnStmt)
	if !ok || len(ret.Results) != 1 {
		return unk
	}
	if id, ok := unparen(ret.Results[0]).(*ast.Ident); ok && id.Name == "nil" {
		return ".none"
	}
	un, ok := unparen(ret.Results[0]).(*ast.UnaryExpr)
	if !ok || un.Op != token.AND {
		return unk
	}
	cl, ok := un.X.(*ast.CompositeLit)
	if !ok {
		return unk
	}
	rt, ok := info.TypeOf(cl).(*types.Named)
	if !ok {
		return unk
	}
	rname := rt.Obj().Pkg().Name() + "." + rt.Obj().Name()
	fields := map[string]valExpr{}
	if !w.headerFields(e, cl, "", fields) {
		return unk
	}
	cmdField, seqField := "", ""
	rcmd := ""
	seqOK := false
	keys := make([]string, 0, len(fields))
	for k := range fields {
		keys = append(keys, k)
	}
	sort.Strings(keys)
	for _, k := range keys {
		ve := fields[k]
		last := k[strings.LastIndexByte(k, '.')+1:]
		switch {
		case last == "CommandID" || last == "ID":
			cmdField = k
			if n, ok := constU64(ve.e.info, ve.x); ok {
				rcmd = fmt.Sprintf("(.const %d)", n)
			} else if idObj != nil && isObj(ve.e, ve.x, idObj) {
				rcmd = rcmdByReq
			}
		}
		// the request's sequence identifier: p.GetSequenceID() or the field it returns
		isSeq := false
		if c, ok := unparen(ve.x).(*ast.CallExpr); ok && len(c.Args) == 0 {
			if fn, r := w.callee(ve.e, c); fn != nil && fn.Name() == "GetSequenceID" && r != nil {
				if p, ok := w.fieldPath(ve.e, r); ok && p == "" {
					isSeq = true
				}
			}
		} else if p, ok := w.fieldPath(ve.e, ve.x); ok && ve.e.root() == e && (p == getSeq || (strings.HasPrefix(getSeq, p+".") && p == k)) {
			// the field GetSequenceID returns, or the whole sequence array it indexes copied to the same field
			isSeq = true
		}
		if isSeq && (last == "SequenceID" || last == "Sequence" || last == "2") {
			seqField = k
			seqOK = true
		}
	}
	if rcmd == "" || cmdField == "" {
		return unk
	}
	w.lastSeqWords = w.seqWords(e, fields, getSeq)
	return fmt.Sprintf(".some %s %s %s %s %v", q(rname), rcmd, q(cmdField), q(seqField), seqOK)
}

// seqWords: for a header whose sequence number is an array of words (SGIP: node id, time, serial), where each
// word of the response comes from: (i, some j) = word j of the request's own header sequence, (i, none) = anything else.
func (w *world) seqWords(e *env, fields map[string]valExpr, getSeq string) string {
	// the request's sequence array: the field GetSequenceID indexes, e.g. "Header.Sequence.2" → "Header.Sequence"
	k := strings.LastIndexByte(getSeq, '.')
	if k < 0 {
		return "[]"
	}
	if _, err := strconv.Atoi(getSeq[k+1:]); err != nil {
		return "[]"
	}
	arr := getSeq[:k]
	serial := getSeq[k+1:]
	var keys []string
	for f := range fields {
		keys = append(keys, f)
	}
	sort.Strings(keys)
	var rows []string
	for _, f := range keys {
		ve := fields[f]
		if ve.e.root() != e && f != arr {
			// the value is an expression of an inlined constructor's own scope (e.g. Timestamp(time.Now()))
			if strings.HasPrefix(f, arr+".") {
				rows = append(rows, fmt.Sprintf("(%s, none)", f[len(arr)+1:]))
			}
			continue
		}
		if f == arr { // Sequence: p.Header.Sequence — the whole array
			if p, ok := w.fieldPath(ve.e, ve.x); ok && p == arr && ve.e.root() == e {
				return "[(0, some 0), (1, some 1), (2, some 2)]"
			}
			return "[(0, none), (1, none), (2, none)]"
		}
		if !strings.HasPrefix(f, arr+".") {
			continue
		}
		i := f[len(arr)+1:]
		src := "none"
		if c, ok := unparen(ve.x).(*ast.CallExpr); ok && len(c.Args) == 0 {
			if fn, r := w.callee(ve.e, c); fn != nil && fn.Name() == "GetSequenceID" && r != nil {
				if p, ok := w.fieldPath(ve.e, r); ok && p == "" {
					src = "some " + serial
				}
			}
		} else if p, ok := w.fieldPath(ve.e, ve.x); ok && strings.HasPrefix(p, arr+".") {
			src = "some " + p[len(arr)+1:]
		}
		rows = append(rows, fmt.Sprintf("(%s, %s)", i, src))
	}
	return "[" + strings.Join(rows, ", ") + "]"
}

func hasMethods(named *types.Named, names ...string) bool {
	ms := types.NewMethodSet(types.NewPointer(named))
	for _, n := range names {
		if ms.Lookup(named.Obj().Pkg(), n) == nil {
			return false
		}
	}
	return true
}

// dispatchers: func DecodeXxx(data []byte) (sms.PDU, error) with a switch allocating PDU types.
func (w *world) dispatchers() []string {
	var res []string
	var fns []*types.Func
	for fn := range w.funcs {
		if fn.Pkg() != nil && strings.HasPrefix(fn.Pkg().Path(), modPath) && strings.HasPrefix(fn.Name(), "Decode") {
			sig := fn.Type().(*types.Signature)
			if sig.Recv() == nil && sig.Results().Len() == 2 && sig.Params().Len() == 1 && strings.HasSuffix(sig.Results().At(0).Type().String(), ".PDU") {
				fns = append(fns, fn)
			}
		}
	}
	sort.Slice(fns, func(i, j int) bool { return fns[i].FullName() < fns[j].FullName() })
	for _, fn := range fns {
		fd := w.funcs[fn]
		info := w.infoOf[fd]
		e := newEnv(info)
		var cases []string
		cmdField := "?"
		unknownIsErr := false
		peekMin := 0
		var dataObj, pduObj types.Object
		if ps := fd.Type.Params.List; len(ps) == 1 && len(ps[0].Names) == 1 {
			dataObj = info.ObjectOf(ps[0].Names[0])
		}
		errType := types.Universe.Lookup("error").Type()
		isErrVar := func(x ast.Expr) bool {
			id, ok := unparen(x).(*ast.Ident)
			return ok && info.ObjectOf(id) != nil && types.Identical(info.TypeOf(id), errType)
		}
		isNil := func(x ast.Expr) bool { id, ok := unparen(x).(*ast.Ident); return ok && id.Name == "nil" }
		isPdu := func(x ast.Expr) bool { return pduObj != nil && isObj(e, x, pduObj) }
		// pdu.IDecode(data)
		isDecodeCall := func(x ast.Expr) bool {
			c, ok := unparen(x).(*ast.CallExpr)
			if !ok || len(c.Args) != 1 || !isObj(e, c.Args[0], dataObj) {
				return false
			}
			se, ok := c.Fun.(*ast.SelectorExpr)
			return ok && se.Sel.Name == "IDecode" && isPdu(se.X)
		}
		// return nil, <ErrUnsupportedPacket>
		isUnsupportedReturn := func(st ast.Stmt) bool {
			r, ok := st.(*ast.ReturnStmt)
			if !ok || len(r.Results) != 2 || !isNil(r.Results[0]) {
				return false
			}
			var o types.Object
			switch x := unparen(r.Results[1]).(type) {
			case *ast.SelectorExpr:
				o = info.Uses[x.Sel]
			case *ast.Ident:
				o = info.Uses[x]
			}
			return o != nil && o.Name() == "ErrUnsupportedPacket" && o.Pkg() != nil && o.Pkg().Path() == modPath
		}
		// return nil, err
		isErrReturn := func(st ast.Stmt) bool {
			r, ok := st.(*ast.ReturnStmt)
			return ok && len(r.Results) == 2 && isNil(r.Results[0]) && isErrVar(r.Results[1])
		}
		newType := func(finfo *types.Info, x ast.Expr) string {
			if call, ok := unparen(x).(*ast.CallExpr); ok {
				if id, ok := call.Fun.(*ast.Ident); ok && id.Name == "new" && len(call.Args) == 1 {
					if nt, ok := finfo.TypeOf(call.Args[0]).(*types.Named); ok {
						return nt.Obj().Pkg().Name() + "." + nt.Obj().Name()
					}
				}
			}
			if u, ok := unparen(x).(*ast.UnaryExpr); ok && u.Op == token.AND { // &T{}
				if cl, ok := u.X.(*ast.CompositeLit); ok && len(cl.Elts) == 0 {
					if nt, ok := finfo.TypeOf(cl).(*types.Named); ok {
						return nt.Obj().Pkg().Name() + "." + nt.Obj().Name()
					}
				}
			}
			return "?"
		}
		isBoolLit := func(x ast.Expr, want bool) bool {
			id, ok := unparen(x).(*ast.Ident)
			return ok && ((want && id.Name == "true") || (!want && id.Name == "false"))
		}
		var okObj types.Object // `pdu, ok := newPDU(id)`
		// the clauses of `switch tag { case C: <pdu = | return> new(T) … }`; assign=true: clause bodies assign to the PDU variable
		var switchCases func(finfo *types.Info, sw *ast.SwitchStmt, assign bool, pdu types.Object) bool
		switchCases = func(finfo *types.Info, sw *ast.SwitchStmt, assign bool, pdu types.Object) bool {
			for _, c := range sw.Body.List {
				cc := c.(*ast.CaseClause)
				if cc.List == nil { // default
					if assign && len(cc.Body) == 1 && isUnsupportedReturn(cc.Body[0]) {
						unknownIsErr = true
						continue
					}
					if !assign && len(cc.Body) == 1 {
						if r, ok := cc.Body[0].(*ast.ReturnStmt); ok && len(r.Results) == 1 && isNil(r.Results[0]) {
							continue
						}
						if r, ok := cc.Body[0].(*ast.ReturnStmt); ok && len(r.Results) == 2 && isNil(r.Results[0]) && isBoolLit(r.Results[1], false) {
							continue
						}
					}
					return false
				}
				tname := "?"
				if len(cc.Body) == 1 {
					if assign {
						if a, ok := cc.Body[0].(*ast.AssignStmt); ok && a.Tok == token.ASSIGN && len(a.Lhs) == 1 && len(a.Rhs) == 1 {
							if id, ok := a.Lhs[0].(*ast.Ident); ok && finfo.ObjectOf(id) == pdu {
								tname = newType(finfo, a.Rhs[0])
							}
						}
					} else if r, ok := cc.Body[0].(*ast.ReturnStmt); ok && len(r.Results) == 1 {
						tname = newType(finfo, r.Results[0])
					} else if r, ok := cc.Body[0].(*ast.ReturnStmt); ok && len(r.Results) == 2 && isBoolLit(r.Results[1], true) {
						tname = newType(finfo, r.Results[0]) // return new(T), true
					}
				}
				for _, cx := range cc.List {
					if n, ok := constU64(finfo, cx); ok {
						cases = append(cases, fmt.Sprintf("(%d, %s)", n, q(tname)))
					} else {
						cases = append(cases, fmt.Sprintf("(0, %s)", q("?"+w.pos(cx))))
					}
				}
			}
			return true
		}
		// pdu := newPduByCommand(header.CommandID): a library function whose body is one switch over its parameter
		// returning new(T) per case, and nil otherwise
		selectorCall := func(x ast.Expr) bool {
			c, ok := unparen(x).(*ast.CallExpr)
			if !ok || len(c.Args) != 1 {
				return false
			}
			hfn, recv := w.callee(e, c)
			if hfn == nil || recv != nil || hfn.Pkg() == nil || !strings.HasPrefix(hfn.Pkg().Path(), modPath) {
				return false
			}
			hfd := w.funcs[hfn]
			p, okp := w.fieldPath(e, c.Args[0])
			if hfd == nil || hfd.Body == nil || !okp || len(hfd.Type.Params.List) != 1 || len(hfd.Type.Params.List[0].Names) != 1 {
				return false
			}
			hinfo := w.infoOf[hfd]
			param := hinfo.ObjectOf(hfd.Type.Params.List[0].Names[0])
			body := hfd.Body.List
			if len(body) == 0 || len(body) > 2 {
				return false
			}
			sw, ok := body[0].(*ast.SwitchStmt)
			if !ok || sw.Init != nil || sw.Tag == nil {
				return false
			}
			if id, ok := unparen(sw.Tag).(*ast.Ident); !ok || hinfo.ObjectOf(id) != param {
				return false
			}
			if len(body) == 2 {
				r, ok := body[1].(*ast.ReturnStmt)
				if !ok || !((len(r.Results) == 1 && isNil(r.Results[0])) || (len(r.Results) == 2 && isNil(r.Results[0]) && isBoolLit(r.Results[1], false))) {
					return false
				}
			}
			cmdField = p
			return switchCases(hinfo, sw, false, nil)
		}
		for _, st := range fd.Body.List {
			recognised := false
			switch s := st.(type) {
			case *ast.DeclStmt:
				// var pdu sms.PDU
				if gd, ok := s.Decl.(*ast.GenDecl); ok && gd.Tok == token.VAR && len(gd.Specs) == 1 {
					if vs, ok := gd.Specs[0].(*ast.ValueSpec); ok && len(vs.Names) == 1 && len(vs.Values) == 0 && pduObj == nil {
						if _, isIface := info.TypeOf(vs.Names[0]).Underlying().(*types.Interface); isIface && !types.Identical(info.TypeOf(vs.Names[0]), errType) {
							pduObj = info.ObjectOf(vs.Names[0])
							recognised = true
						}
					}
				}
			case *ast.ReturnStmt:
				// return pdu, nil
				recognised = len(s.Results) == 2 && isPdu(s.Results[0]) && isNil(s.Results[1])
			case *ast.AssignStmt:
				// err = pdu.IDecode(data)
				if len(s.Lhs) == 1 && len(s.Rhs) == 1 && isErrVar(s.Lhs[0]) && isDecodeCall(s.Rhs[0]) {
					recognised = true
				}
				// pdu := newPduByCommand(header.CommandID)
				if len(s.Lhs) == 1 && len(s.Rhs) == 1 && pduObj == nil && s.Tok == token.DEFINE {
					if id, ok := s.Lhs[0].(*ast.Ident); ok {
						if selectorCall(s.Rhs[0]) {
							pduObj = info.ObjectOf(id)
							recognised = true
						}
					}
				}
				// pdu, ok := newPDU(header.ID)
				if len(s.Lhs) == 2 && len(s.Rhs) == 1 && pduObj == nil && s.Tok == token.DEFINE && !isErrVar(s.Lhs[1]) {
					id0, ok0 := s.Lhs[0].(*ast.Ident)
					id1, ok1 := s.Lhs[1].(*ast.Ident)
					if ok0 && ok1 && types.Identical(info.TypeOf(id1), types.Typ[types.Bool]) && selectorCall(s.Rhs[0]) {
						pduObj, okObj = info.ObjectOf(id0), info.ObjectOf(id1)
						recognised = true
					}
				}
				// header, err := pkg.PeekHeader(data)
				if len(s.Lhs) == 2 && len(s.Rhs) == 1 && isErrVar(s.Lhs[1]) {
					if c, ok := s.Rhs[0].(*ast.CallExpr); ok && len(c.Args) == 1 && isObj(e, c.Args[0], dataObj) {
						if pf, _ := w.callee(e, c); pf != nil && pf.Name() == "PeekHeader" {
							e.paths[info.ObjectOf(s.Lhs[0].(*ast.Ident))] = "Header"
							peekMin = w.peekMin(pf)
							recognised = true
						}
					}
				}
			case *ast.SwitchStmt:
				if s.Tag != nil && s.Init == nil && pduObj != nil {
					if p, ok := w.fieldPath(e, s.Tag); ok {
						cmdField = p
						recognised = switchCases(info, s, true, pduObj)
					}
				}
			case *ast.IfStmt:
				if s.Else != nil || len(s.Body.List) != 1 {
					break
				}
				// if !ok { return nil, sms.ErrUnsupportedPacket }
				if u, isNot := unparen(s.Cond).(*ast.UnaryExpr); isNot && u.Op == token.NOT && okObj != nil && isObj(e, u.X, okObj) && s.Init == nil && isUnsupportedReturn(s.Body.List[0]) {
					unknownIsErr = true
					recognised = true
				}
				cond, ok := unparen(s.Cond).(*ast.BinaryExpr)
				if !ok {
					if !recognised {
						cases = append(cases, fmt.Sprintf("(0, %s)", q("?unrecognised statement "+w.pos(st))))
					}
					continue
				}
				// if pdu == nil { return nil, sms.ErrUnsupportedPacket }
				if cond.Op == token.EQL && isPdu(cond.X) && isNil(cond.Y) && s.Init == nil && isUnsupportedReturn(s.Body.List[0]) {
					unknownIsErr = true
					recognised = true
				}
				// if err != nil { return nil, err }   |   if err = pdu.IDecode(data); err != nil { return nil, err }  (also with :=)
				if cond.Op == token.NEQ && isErrVar(cond.X) && isNil(cond.Y) && isErrReturn(s.Body.List[0]) {
					if s.Init == nil {
						recognised = true
					} else if a, ok := s.Init.(*ast.AssignStmt); ok && len(a.Lhs) == 1 && len(a.Rhs) == 1 && isErrVar(a.Lhs[0]) && isDecodeCall(a.Rhs[0]) {
						recognised = true
					}
				}
			}
			if !recognised {
				// a statement the translator does not understand: every checker rejects the dispatcher
				cases = append(cases, fmt.Sprintf("(0, %s)", q("?unrecognised statement "+w.pos(st))))
			}
		}
		res = append(res, fmt.Sprintf("{ name := %s, pkg := %s, cmdField := %s, cases := [%s], unknownIsError := %v, peekMin := %d }",
			q(fn.Pkg().Name()+"."+fn.Name()), q(fn.Pkg().Name()), q(cmdField), strings.Join(cases, ", "), unknownIsErr, peekMin))
	}
	return res
}

// peekMin: the N of `if len(buf) < N` at the top of PeekHeader.
func (w *world) peekMin(fn *types.Func) int {
	fd := w.funcs[fn]
	if fd == nil || fd.Body == nil || len(fd.Body.List) == 0 {
		return 0
	}
	if s, ok := fd.Body.List[0].(*ast.IfStmt); ok {
		if b, ok := s.Cond.(*ast.BinaryExpr); ok && b.Op == token.LSS {
			if n, ok := constU64(w.infoOf[fd], b.Y); ok {
				return int(n)
			}
		}
	}
	return 0
}

func (w *world) genTables() string {
	var sb strings.Builder
	sb.WriteString("-- GENERATED by /verif/go/extract from the Go source of the repository's working tree. Do not edit.\n")
	sb.WriteString("import SmsVerif.Model.Meta\nnamespace SmsVerif.Gen\nopen SmsVerif\n\n")
	var metas []string
	for _, pi := range w.pdus() {
		isPdu := hasMethods(pi.named, "GetCommand", "GenEmptyResponse", "GetSequenceID", "SetSequenceID", "String")
		cmd, resp, gs, ss := `.unknown "not a PDU"`, `.unknown "not a PDU"`, "?", "?"
		if isPdu {
			gs = w.seqGet(pi.named)
			ss = w.seqSet(pi.named)
			cmd = w.cmdSpec(pi.named)
			w.lastSeqWords = ""
			resp = w.respSpec(pi, gs)
		}
		words := "[]"
		if isPdu && w.lastSeqWords != "" {
			words = w.lastSeqWords
		}
		metas = append(metas, fmt.Sprintf("{ name := %s, pkg := %s, isPdu := %v, cmd := %s, resp := %s, getSeq := %s, setSeq := %s, seqWords := %s }", q(pi.name), q(pi.pkg.Types.Name()), isPdu, cmd, resp, q(gs), q(ss), words))
		_ = 0
	}
	fmt.Fprintf(&sb, "def metas : List PduMeta := %s\n\n", leanList(metas, "  "))
	fmt.Fprintf(&sb, "def dispatchers : List Dispatcher := %s\n\n", leanList(w.dispatchers(), "  "))
	sb.WriteString(w.genLookupTables())
	sb.WriteString("end SmsVerif.Gen\n")
	return sb.String()
}

// mapLiteral renders a package-level `var name = map[K]V{...}` of integer/rune constants as a Lean list of pairs,
// in source order.
func (w *world) mapLiteral(pkgPath, name string) (string, bool) {
	p := w.pkgs[pkgPath]
	if p == nil {
		return "", false
	}
	for _, f := range p.Syntax {
		for _, d := range f.Decls {
			gd, ok := d.(*ast.GenDecl)
			if !ok || gd.Tok != token.VAR {
				continue
			}
			for _, sp := range gd.Specs {
				vs := sp.(*ast.ValueSpec)
				for i, nm := range vs.Names {
					if nm.Name != name || i >= len(vs.Values) {
						continue
					}
					cl, ok := vs.Values[i].(*ast.CompositeLit)
					if !ok {
						return "", false
					}
					var rows []string
					for _, el := range cl.Elts {
						kv, ok := el.(*ast.KeyValueExpr)
						if !ok {
							return "", false
						}
						k, ok1 := constU64(p.TypesInfo, kv.Key)
						v, ok2 := constU64(p.TypesInfo, kv.Value)
						if !ok1 || !ok2 {
							return "", false
						}
						rows = append(rows, fmt.Sprintf("(%d, %d)", k, v))
					}
					return "[" + strings.Join(rows, ", ") + "]", true
				}
			}
		}
	}
	return "", false
}

func (w *world) constValue(pkgPath, name string) (uint64, bool) {
	p := w.pkgs[pkgPath]
	if p == nil {
		return 0, false
	}
	if c, ok := p.Types.Scope().Lookup(name).(*types.Const); ok && c.Val().Kind() == constant.Int {
		return constant.Uint64Val(c.Val())
	}
	return 0, false
}

func (w *world) genLookupTables() string {
	var sb strings.Builder
	gsm := modPath + "/datacoding/gsm7encoding"
	for _, n := range []string{"forwardLookup", "forwardEscape", "reverseLookup", "reverseEscape"} {
		if l, ok := w.mapLiteral(gsm, n); ok {
			fmt.Fprintf(&sb, "/-- `gsm7encoding.%s` -/\ndef gsm_%s : List (Nat × Nat) := %s\n\n", n, n, l)
		} else {
			fmt.Fprintf(&sb, "def gsm_%s : List (Nat × Nat) := [] -- NOT EXTRACTED\n\n", n)
		}
	}
	if v, ok := w.constValue(gsm, "EscapeSequence"); ok {
		fmt.Fprintf(&sb, "def gsm_escape : Nat := %d\n\n", v)
	}
	dc := modPath + "/datacoding"
	for _, n := range []string{"UDHILength", "MaxLongSmsLength", "MaxGSM7Length", "SplitBy134", "SplitBy153"} {
		if v, ok := w.constValue(dc, n); ok {
			fmt.Fprintf(&sb, "def dc_%s : Nat := %d\n", n, v)
		}
	}
	sb.WriteString("\n")
	// priority tables filled in init(): m[K] = V
	for _, tbl := range []string{"cmppDataCodingPriority", "smppDataCodingPriority"} {
		// a map literal in the declaration (evaluated before init) followed by `m[K] = V` in init()
		var rows []string
		if l, ok := w.mapLiteral(dc, tbl); ok && l != "[]" {
			rows = append(rows, strings.Split(strings.TrimSuffix(strings.TrimPrefix(l, "["), "]"), "), ")...)
			for i := range rows {
				if !strings.HasSuffix(rows[i], ")") {
					rows[i] += ")"
				}
			}
		}
		rows = append(rows, w.initAssignments(dc, tbl)...)
		keys := map[string]bool{}
		for i, r := range rows {
			k := strings.SplitN(r, ",", 2)[0]
			if keys[k] {
				rows[i] = fmt.Sprintf("(0, 0) /- unsupported: key %s assigned twice -/", strings.TrimPrefix(k, "("))
			}
			keys[k] = true
		}
		fmt.Fprintf(&sb, "/-- `datacoding.%s` (coding number ↦ priority; smaller is preferred) -/\ndef %s : List (Nat × Nat) := [%s]\n\n", tbl, tbl, strings.Join(rows, ", "))
	}
	return sb.String()
}

// initAssignments collects `name[K] = V` statements with constant K, V from the package's init functions.
func (w *world) initAssignments(pkgPath, name string) []string {
	p := w.pkgs[pkgPath]
	var rows []string
	if p == nil {
		return rows
	}
	for _, f := range p.Syntax {
		for _, d := range f.Decls {
			fd, ok := d.(*ast.FuncDecl)
			if !ok || fd.Name.Name != "init" || fd.Recv != nil {
				continue
			}
			for _, st := range fd.Body.List {
				as, ok := st.(*ast.AssignStmt)
				if !ok || len(as.Lhs) != 1 || len(as.Rhs) != 1 {
					continue
				}
				ix, ok := as.Lhs[0].(*ast.IndexExpr)
				if !ok {
					continue
				}
				if id, ok := ix.X.(*ast.Ident); !ok || id.Name != name {
					continue
				}
				k, ok1 := constU64(p.TypesInfo, ix.Index)
				v, ok2 := constU64(p.TypesInfo, as.Rhs[0])
				if ok1 && ok2 {
					rows = append(rows, fmt.Sprintf("(%d, %d)", k, v))
				} else {
					rows = append(rows, fmt.Sprintf("(0, 0) /- unsupported %s -/", w.pos(st)))
				}
			}
		}
	}
	return rows
}
